from typing import Generic, TypeVar
import vtrace
K = TypeVar('K')
V = TypeVar('V')


class MessageFactory(Generic[K, V]):
    def __init__(self):
        self._m = {}

    def register(self, k, c):
        self._m[k] = c

    def create(self, k):
        vtrace.ev('factory', 0)
        if k not in self._m:
            raise ValueError('unknown message key %r' % (k,))
        return self._m[k]()

"""Trace hook shared by the stand-in runtime modules (monitor side, not part of the emulated API)."""
import collections
COUNTS = collections.Counter()
PATCHES = []
CKIN = []


def ev(kind, n):
    COUNTS[kind] += 1


def patch(pos, size, le):
    PATCHES.append((pos, size, le))


def ckin(name, data):
    CKIN.append((name, bytes(data)))

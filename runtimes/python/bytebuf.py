"""Stand-in for fin-proto-py's bytebuf module: exactly the call surface the emitted Python uses."""
import struct
import vtrace

_F = {'u8': 'B', 'i8': 'b', 'u16': 'H', 'i16': 'h', 'u32': 'I', 'i32': 'i', 'u64': 'Q', 'i64': 'q', 'f32': 'f', 'f64': 'd'}


class ByteBuf:
    def __init__(self, data=b''):
        self.data = bytearray(data)
        self.read_index = 0

    @property
    def write_index(self):
        return len(self.data)

    def readable(self):
        return len(self.data) - self.read_index

    def write_bytes(self, b):
        vtrace.ev('w.bytes', len(b))
        self.data += b

    def read_bytes(self, n):
        if n < 0 or self.read_index + n > len(self.data):
            raise IndexError('read past end of buffer')
        vtrace.ev('r.bytes', n)
        b = bytes(self.data[self.read_index:self.read_index + n])
        self.read_index += n
        return b


def _mk(name, fmt, le):
    pre = '<' if le else '>'
    suffix = '_le' if le else ''
    size = struct.calcsize(fmt)
    tag = name + ('.le' if le else '.be')

    def w(self, v):
        vtrace.ev('w.' + tag, size)
        self.data += struct.pack(pre + fmt, v)

    def r(self):
        if self.read_index + size > len(self.data):
            raise IndexError('read past end of buffer')
        vtrace.ev('r.' + tag, size)
        v = struct.unpack_from(pre + fmt, self.data, self.read_index)[0]
        self.read_index += size
        return v

    def wat(self, pos, v):
        vtrace.ev('patch.' + tag, size)
        vtrace.patch(pos, size, le)
        struct.pack_into(pre + fmt, self.data, pos, v)

    setattr(ByteBuf, 'write_' + name + suffix, w)
    setattr(ByteBuf, 'read_' + name + suffix, r)
    setattr(ByteBuf, 'write_' + name + suffix + '_at', wat)


for _k, _f in _F.items():
    _mk(_k, _f, False)
    if _k not in ('u8', 'i8'):
        _mk(_k, _f, True)

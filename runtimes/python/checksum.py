"""Stand-in checksum registry: SUM8/CRC16/CRC32/CRC64 are registered (value width = 1/2/4/8 bytes), every other name is not."""
import zlib
import vtrace


class _Svc:
    def __init__(self, name):
        self.name = name

    def calc(self, buf):
        data = bytes(buf.data)
        vtrace.ckin(self.name, data)
        vtrace.ev('cksum_in', len(data))
        c = zlib.crc32(data) & 0xffffffff
        if self.name == 'SUM8':
            return sum(data) & 0xff
        if self.name == 'CRC16':
            return c & 0xffff
        if self.name == 'CRC32':
            return c
        return (c << 32) | (c ^ 0xffffffff)


def create_checksum_service(name):
    if name in ('SUM8', 'CRC16', 'CRC32', 'CRC64'):
        return _Svc(name)
    return None

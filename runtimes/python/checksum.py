"""Stand-in checksum registry: SUM8/CRC16/CRC32/CRC64 are registered (value width = 1/2/4/8 bytes), every other name is not."""
import zlib
import vtrace


class _Svc:
    def __init__(self, name):
        self.name = name

    def calc(self, buf):
        data = bytes(buf.data)
        vtrace.ckin(self.name, data)
        vtrace.ev('cksum_in', len(data))
        c = zlib.crc32(data) & 0xffffffff
        n = self.name
        if n == 'SUM8':
            return sum(data) & 0xff
        if n == 'CRC16':
            return c & 0xffff
        if n == 'CRC32':
            return c
        if n == 'CRC64':
            return (c << 32) | (c ^ 0xffffffff)
        if n == 'Xor8':
            x = 0
            for b in data:
                x ^= b
            return x
        if n == 'Add16':
            return sum(data) & 0xffff
        if n == 'Mix32':
            return c ^ 0x5a5a5a5a
        return ((c << 32) | c) ^ 0x0123456789abcdef


REGISTERED = ('SUM8', 'CRC16', 'CRC32', 'CRC64', 'Xor8', 'Add16', 'Mix32', 'Mix64')   # case-sensitive


ENABLED = True      # monitor side: the driver empties / restores the registry between encodes (case kind U)


def create_checksum_service(name):
    if ENABLED and name in REGISTERED:
        return _Svc(name)
    return None

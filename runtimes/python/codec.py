"""Stand-in for fin-proto-py's codec module."""
import vtrace


class BinaryCodec:
    pass


_MASK = {'u8': 0xff, 'u16': 0xffff, 'u32': 0xffffffff, 'u64': 0xffffffffffffffff}


def write_fixed_string(buf, s, n, enc='utf-8', pad=' ', left=False):
    b = s.encode(enc)
    if len(b) > n:
        raise ValueError('fixed string longer than %d bytes' % n)
    p = pad.encode(enc) * (n - len(b))
    vtrace.ev('w.fix', n)
    buf.data += (p + b) if left else (b + p)


def read_fixed_string(buf, n, enc='utf-8', pad=' ', left=False):
    b = buf.read_bytes(n)
    p = pad.encode(enc)
    b = b.lstrip(p) if left else b.rstrip(p)
    return b.decode(enc)


def _w(buf, t, le, v):
    if v < 0 or v > _MASK[t]:
        raise ValueError('length does not fit prefix type ' + t)
    getattr(buf, 'write_' + t + ('_le' if le and t != 'u8' else ''))(v)


def _r(buf, t, le):
    return getattr(buf, 'read_' + t + ('_le' if le and t != 'u8' else ''))()


def write_string(buf, s, t):
    b = s.encode('utf-8')
    _w(buf, t, False, len(b))
    buf.write_bytes(b)


def write_string_le(buf, s, t):
    b = s.encode('utf-8')
    _w(buf, t, True, len(b))
    buf.write_bytes(b)


def read_string(buf, t):
    n = _r(buf, t, False)
    return buf.read_bytes(n).decode('utf-8')


def read_string_le(buf, t):
    n = _r(buf, t, True)
    return buf.read_bytes(n).decode('utf-8')


def read_len(buf, t):
    return _r(buf, t, False)


def read_len_le(buf, t):
    return _r(buf, t, True)

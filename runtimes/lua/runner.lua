-- Wireshark API mock + case runner.  usage: luahost runner.lua <emitted.lua> <cases.txt>
-- Output lines:  LOAD ok|<error> ; per case: BEGIN id / ADD field off len le / TEXT off len text / READ off len accessor /
-- FINAL id <offset|nil> / ERR id <message> / END id ; DONE
local script, casefile = arg[1], arg[2]

local EV = {}
local function ev(s) EV[#EV + 1] = s end

-- ---------------------------------------------------------------- UInt64 / Int64 stand-ins
local U64 = {}
U64.__index = U64
local function mk64(v, signed) return setmetatable({ v = v, signed = signed }, U64) end
local function val(x) if type(x) == "table" and getmetatable(x) == U64 then return x.v end return x end
U64.__tostring = function(a) if a.signed then return string.format("%d", a.v) end return string.format("%u", a.v) end
U64.__concat = function(a, b) return tostring(a) .. tostring(b) end
U64.__add = function(a, b) return mk64(val(a) + val(b)) end
U64.__sub = function(a, b) return mk64(val(a) - val(b)) end
U64.__mul = function(a, b) return mk64(val(a) * val(b)) end
U64.__eq = function(a, b) return val(a) == val(b) end
U64.__lt = function(a, b) return math.ult(val(a), val(b)) end
U64.__le = function(a, b) return val(a) == val(b) or math.ult(val(a), val(b)) end
-- Wireshark's UInt64:tonumber() returns a lua_Number (double). For values that fit a non-negative Lua integer the integer compares the same way;
-- the upper half of the unsigned range (stored here as a negative Lua integer) is converted the way (lua_Number)(guint64) is, so that a
-- key like 9223372036854775808 compares equal to the literal the emitter writes (which Lua 5.3 reads as a float)
function U64:tonumber()
  if not self.signed and self.v < 0 then return (self.v + 0.0) + 18446744073709551616.0 end
  return self.v
end

-- ---------------------------------------------------------------- Tvb / TvbRange
local Range = {}
Range.__index = Range
local function bytes_of(r) return r.tvb.data:sub(r.off + 1, r.off + r.len) end
local function rd(r, acc, le, signed)
  ev(string.format("READ %d %d %s", r.off, r.len, acc))
  local s = bytes_of(r)
  if r.len < 1 or r.len > 8 then error("TvbRange:" .. acc .. "() does not handle " .. r.len .. " byte integers") end
  local fmt = (le and "<" or ">") .. (signed and "i" or "I") .. r.len
  return (string.unpack(fmt, s))
end
function Range:uint() if self.len > 4 then error("TvbRange:uint() does not handle " .. self.len .. " byte integers") end return rd(self, "uint", false, false) end
function Range:le_uint() if self.len > 4 then error("TvbRange:le_uint() does not handle " .. self.len .. " byte integers") end return rd(self, "le_uint", true, false) end
function Range:int() if self.len > 4 or self.len == 3 then error("TvbRange:int() does not handle " .. self.len .. " byte integers") end return rd(self, "int", false, true) end
function Range:le_int() if self.len > 4 or self.len == 3 then error("TvbRange:le_int() does not handle " .. self.len .. " byte integers") end return rd(self, "le_int", true, true) end
function Range:uint64() return mk64(rd(self, "uint64", false, false), false) end
function Range:le_uint64() return mk64(rd(self, "le_uint64", true, false), false) end
function Range:int64() return mk64(rd(self, "int64", false, true), true) end
function Range:le_int64() return mk64(rd(self, "le_int64", true, true), true) end
function Range:float()
  ev(string.format("READ %d %d float", self.off, self.len))
  if self.len == 4 then return (string.unpack(">f", bytes_of(self))) elseif self.len == 8 then return (string.unpack(">d", bytes_of(self))) end
  error("TvbRange:float() does not handle " .. self.len .. " byte floats")
end
function Range:le_float()
  ev(string.format("READ %d %d le_float", self.off, self.len))
  if self.len == 4 then return (string.unpack("<f", bytes_of(self))) elseif self.len == 8 then return (string.unpack("<d", bytes_of(self))) end
  error("TvbRange:le_float() does not handle " .. self.len .. " byte floats")
end
function Range:string() ev(string.format("READ %d %d string", self.off, self.len)) return bytes_of(self) end
function Range:bytes() return bytes_of(self) end
function Range:len_() return self.len end
function Range:offset() return self.off end

local Tvb = {}
Tvb.__index = Tvb
Tvb.__call = function(self, off, len)
  if off == nil then off = 0 end
  if type(off) ~= "number" or math.type(off) ~= "integer" then error("bad argument #1 to 'Tvb:range' (number expected, got " .. (type(off) == "table" and "userdata" or math.type(off) or type(off)) .. ")") end
  if len == nil then len = #self.data - off end
  if type(len) ~= "number" or math.type(len) ~= "integer" then error("bad argument #2 to 'Tvb:range' (number expected, got " .. (type(len) == "table" and "userdata" or math.type(len) or type(len)) .. ")") end
  if off < 0 or len < 0 or off + len > #self.data or (len == 0 and off >= #self.data and false) then error("Range is out of bounds") end
  return setmetatable({ tvb = self, off = off, len = len }, Range)
end
function Tvb:len() return #self.data end
local function new_tvb(data) return setmetatable({ data = data }, Tvb) end

-- ---------------------------------------------------------------- ProtoField / Proto / base / DissectorTable
local PF = {}
PF.__index = PF
ProtoField = setmetatable({}, { __index = function(_, ty)
  return function(filter, name, ...)
    return setmetatable({ filter = filter, name = name, ty = ty }, PF)
  end
end })
base = { DEC = 1, HEX = 2, OCT = 3, NONE = 0, DEC_HEX = 4, HEX_DEC = 5 }
local PROTOS = {}
local ProtoMT = {}
ProtoMT.__index = ProtoMT
function Proto(name, desc)
  local p = setmetatable({ name = name, desc = desc, fields = {}, is_proto = true }, ProtoMT)
  PROTOS[#PROTOS + 1] = p
  return p
end
local REGISTERED = {}
DissectorTable = { get = function(name) return { add = function(self, port, proto) REGISTERED[#REGISTERED + 1] = { name = name, port = port, proto = proto } end } end }

-- ---------------------------------------------------------------- TreeItem
local Tree = {}
Tree.__index = Tree
local function add(self, le, what, range, ...)
  local child = setmetatable({}, Tree)
  if type(what) == "table" and getmetatable(what) == PF then
    if range == nil or getmetatable(range) ~= Range then error("TreeItem:add: field added without a TvbRange") end
    ev(string.format("ADD %s %d %d %s %s", what.filter, range.off, range.len, le and "le" or "be", what.ty))
  elseif type(what) == "table" and what.is_proto then
    if range ~= nil and getmetatable(range) == Range then ev(string.format("PROTO %d %d", range.off, range.len)) end
  elseif type(what) == "string" then
    if range ~= nil and getmetatable(range) == Range then ev(string.format("TEXT %d %d %s", range.off, range.len, what:gsub("%s", "_"))) end
  elseif type(what) == "table" and getmetatable(what) == Range then
    ev(string.format("TEXT %d %d -", what.off, what.len))
  else
    error("TreeItem:add: bad argument #1 (" .. type(what) .. ")")
  end
  return child
end
function Tree:add(what, range, ...) return add(self, false, what, range, ...) end
function Tree:le_add(what, range, ...) return add(self, true, what, range, ...) end
function Tree:append_text(t) return self end
function Tree:set_text(t) return self end
function Tree:add_expert_info(...) return self end
local function new_pinfo()
  local col = { set = function() end, append = function() end, prepend = function() end, clear = function() end }
  return { cols = setmetatable({ info = col }, { __newindex = function(t, k, v) rawset(t, k, v) end }) }
end

-- ---------------------------------------------------------------- load the emitted script
local chunk, lerr = loadfile(script)
if not chunk then print("LOAD syntax: " .. tostring(lerr)) print("DONE") return end
local ok, rerr = xpcall(chunk, debug.traceback)
if not ok then print("LOAD run: " .. tostring(rerr):gsub("\n", " | ")) print("DONE") return end
if #REGISTERED == 0 or type(REGISTERED[1].proto.dissector) ~= "function" then print("LOAD nodissector") print("DONE") return end
print("LOAD ok")
local DISSECT = REGISTERED[1].proto.dissector

local FINAL = nil
local function hook()
  local info = debug.getinfo(2, "f")
  if info and info.func == DISSECT then
    local i = 1
    while true do
      local n, v = debug.getlocal(2, i)
      if not n then break end
      if n == "offset" then FINAL = v end
      i = i + 1
    end
  end
end

local function unhex(h) return (h:gsub("..", function(c) return string.char(tonumber(c, 16)) end)) end

if casefile then
  for line in io.lines(casefile) do
    local id, hex = line:match("^(%S+)%s+(%S+)")
    if id then
      EV = {}
      FINAL = nil
      print("BEGIN " .. id)
      io.stdout:flush()
      local data = hex == "-" and "" or unhex(hex)
      local tvb = new_tvb(data)
      debug.sethook(hook, "r")
      local ok2, err = xpcall(function() DISSECT(tvb, new_pinfo(), setmetatable({}, Tree)) end, function(m) return tostring(m) end)
      debug.sethook()
      for _, e in ipairs(EV) do print(e) end
      if not ok2 then print("ERR " .. id .. " " .. tostring(err):gsub("\n", " | ")) end
      print("FINAL " .. id .. " " .. tostring(type(FINAL) == "table" and ("U64:" .. tostring(FINAL)) or FINAL))
      print("END " .. id)
    end
  end
end
print("DONE")

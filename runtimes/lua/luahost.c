/* Minimal Lua 5.3 host for the Wireshark mock: runs a script with arguments, prints a traceback on error. */
#include <stdio.h>
#include <stdlib.h>
#include <string.h>
#include <lua.h>
#include <lauxlib.h>
#include <lualib.h>

static int traceback(lua_State *L) {
  const char *msg = lua_tostring(L, 1);
  luaL_traceback(L, L, msg ? msg : "(error object is not a string)", 1);
  return 1;
}

int main(int argc, char **argv) {
  if (argc < 2) { fprintf(stderr, "usage: luahost script.lua [args]\n"); return 2; }
  lua_State *L = luaL_newstate();
  luaL_openlibs(L);
  lua_newtable(L);
  for (int i = 0; i < argc; i++) { lua_pushstring(L, argv[i]); lua_rawseti(L, -2, i - 1); }
  lua_setglobal(L, "arg");
  lua_pushcfunction(L, traceback);
  if (luaL_loadfile(L, argv[1]) != LUA_OK) { fprintf(stderr, "HOSTERR load: %s\n", lua_tostring(L, -1)); return 3; }
  if (lua_pcall(L, 0, 0, 1) != LUA_OK) { fprintf(stderr, "HOSTERR run: %s\n", lua_tostring(L, -1)); return 4; }
  lua_close(L);
  return 0;
}

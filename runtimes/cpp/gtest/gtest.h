// Minimal gtest stand-in: TEST, EXPECT_TRUE/EQ, ASSERT_TRUE, and a main() that runs every registered test.
#pragma once
#include <exception>
#include <functional>
#include <iostream>
#include <string>
#include <vector>

namespace vgtest {
struct Case { std::string name; std::function<void()> fn; };
inline std::vector<Case>& cases() { static std::vector<Case> c; return c; }
inline int& failures() { static int f = 0; return f; }
struct Reg { Reg(const char* n, std::function<void()> f) { cases().push_back({n, std::move(f)}); } };
inline int run_all() {
  int failed = 0;
  for (auto& c : cases()) {
    int before = failures();
    std::cout << "TEST " << c.name << " BEGIN" << std::endl;
    try { c.fn(); } catch (const std::exception& e) { failures()++; std::cout << "  exception: " << e.what() << std::endl; } catch (...) { failures()++; std::cout << "  unknown exception" << std::endl; }
    bool ok = failures() == before;
    if (!ok) failed++;
    std::cout << "TEST " << c.name << (ok ? " PASS" : " FAIL") << std::endl;
  }
  std::cout << "DONE" << std::endl;
  return failed == 0 ? 0 : 1;
}
}  // namespace vgtest

#define TEST(SUITE, NAME)                                                                 \
  static void vg_##SUITE##_##NAME();                                                      \
  static vgtest::Reg vg_reg_##SUITE##_##NAME(#SUITE "." #NAME, vg_##SUITE##_##NAME);      \
  static void vg_##SUITE##_##NAME()
#define EXPECT_TRUE(c) do { if (!(c)) { vgtest::failures()++; std::cout << "  EXPECT_TRUE failed: " #c << std::endl; } } while (0)
#define EXPECT_FALSE(c) EXPECT_TRUE(!(c))
#define ASSERT_TRUE(c) do { if (!(c)) { vgtest::failures()++; std::cout << "  ASSERT_TRUE failed: " #c << std::endl; return; } } while (0)
#define EXPECT_EQ(a, b) EXPECT_TRUE((a) == (b))
#define ASSERT_EQ(a, b) ASSERT_TRUE((a) == (b))
#ifndef VERIF_NO_GTEST_MAIN
int main() { return vgtest::run_all(); }
#endif

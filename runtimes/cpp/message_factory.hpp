// Verification stand-in for fin-proto-cpp's message_factory.hpp.
#pragma once
#include <functional>
#include <memory>
#include <sstream>
#include <stdexcept>
#include <unordered_map>

#include "include/bytebuf.hpp"

template <typename K, typename Base, typename Tag>
class MessageFactory {
 public:
  using Creator = std::function<std::unique_ptr<Base>()>;
  static MessageFactory& getInstance() { static MessageFactory f; return f; }
  void registerType(const K& k, Creator c) { map_[k] = std::move(c); }
  std::unique_ptr<Base> create(const K& k) const {
    vtrace::ev("factory");
    auto it = map_.find(k);
    if (it == map_.end()) throw std::invalid_argument("MessageFactory: no message registered for this key");
    return it->second();
  }

 private:
  std::unordered_map<K, Creator> map_;
};

#define VERIF_CAT2(a, b) a##b
#define VERIF_CAT(a, b) VERIF_CAT2(a, b)
#define REGISTER_MESSAGE(FACTORY, KEY, TYPE)                                                           \
  static const bool VERIF_CAT(verif_registered_, __COUNTER__) = [] {                                    \
    FACTORY::getInstance().registerType(KEY, [] { return std::unique_ptr<codec::BinaryCodec>(new TYPE()); }); \
    return true;                                                                                        \
  }()

// Verification stand-in for fin-proto-cpp's include/checksum.hpp: SUM8/CRC16/CRC32/CRC64 are registered
// (value type uint8/16/32/64), every other name - or a value type other than the algorithm's - is not.
#pragma once
#include <cstdint>
#include <string>
#include <type_traits>

#include "include/bytebuf.hpp"

template <typename B, typename T>
struct ChecksumService {
  std::string name;
  T calc(const B& buf) const {
    const auto& d = buf.data();
    vtrace::ckin().push_back({name, vtrace::hex(d.data(), d.size())});
    vtrace::ev("cksum_in");
    uint32_t crc = 0xffffffffu;
    uint8_t sum = 0;
    for (uint8_t b : d) {
      sum = static_cast<uint8_t>(sum + b);
      crc ^= b;
      for (int i = 0; i < 8; i++) crc = (crc & 1) ? (crc >> 1) ^ 0xedb88320u : crc >> 1;
    }
    crc = ~crc;
    if (name == "SUM8") return static_cast<T>(sum);
    if (name == "CRC16") return static_cast<T>(crc & 0xffffu);
    if (name == "CRC32") return static_cast<T>(crc);
    return static_cast<T>((static_cast<uint64_t>(crc) << 32) | static_cast<uint64_t>(crc ^ 0xffffffffu));
  }
};

class ChecksumServiceContext {
 public:
  static ChecksumServiceContext& instance() { static ChecksumServiceContext c; return c; }
  template <typename B, typename T>
  const ChecksumService<B, T>* get(const std::string& name) {
    bool ok = (name == "SUM8" && sizeof(T) == 1) || (name == "CRC16" && sizeof(T) == 2) || (name == "CRC32" && sizeof(T) == 4) || (name == "CRC64" && sizeof(T) == 8);
    if (!ok || !std::is_unsigned_v<T>) return nullptr;
    static ChecksumService<B, T> s8{"SUM8"}, s16{"CRC16"}, s32{"CRC32"}, s64{"CRC64"};
    if (name == "SUM8") return &s8;
    if (name == "CRC16") return &s16;
    if (name == "CRC32") return &s32;
    return &s64;
  }
};

// Verification stand-in for fin-proto-cpp's include/checksum.hpp: SUM8/CRC16/CRC32/CRC64 are registered
// (value type uint8/16/32/64), every other name - or a value type other than the algorithm's - is not.
#pragma once
#include <cstdint>
#include <string>
#include <type_traits>

#include "include/bytebuf.hpp"

template <typename B, typename T>
struct ChecksumService {
  std::string name;
  T calc(const B& buf) const {
    const auto& d = buf.data();
    vtrace::ckin().push_back({name, vtrace::hex(d.data(), d.size())});
    vtrace::ev("cksum_in");
    uint32_t crc = 0xffffffffu;
    uint32_t sum = 0;
    uint8_t x = 0;
    for (uint8_t b : d) {
      sum += b;
      x ^= b;
      crc ^= b;
      for (int i = 0; i < 8; i++) crc = (crc & 1) ? (crc >> 1) ^ 0xedb88320u : crc >> 1;
    }
    crc = ~crc;
    if (name == "SUM8") return static_cast<T>(sum & 0xffu);
    if (name == "Xor8") return static_cast<T>(x);
    if (name == "CRC16") return static_cast<T>(crc & 0xffffu);
    if (name == "Add16") return static_cast<T>(sum & 0xffffu);
    if (name == "CRC32") return static_cast<T>(crc);
    if (name == "Mix32") return static_cast<T>(crc ^ 0x5a5a5a5au);
    if (name == "Mix64") return static_cast<T>(((static_cast<uint64_t>(crc) << 32) | static_cast<uint64_t>(crc)) ^ 0x0123456789abcdefull);
    return static_cast<T>((static_cast<uint64_t>(crc) << 32) | static_cast<uint64_t>(crc ^ 0xffffffffu));
  }
};

class ChecksumServiceContext {
 public:
  static ChecksumServiceContext& instance() { static ChecksumServiceContext c; return c; }
  bool verif_enabled = true;   // monitor side: the driver empties / restores the registry between encodes (case kind U)
  template <typename B, typename T>
  const ChecksumService<B, T>* get(const std::string& name) {
    if (!verif_enabled) return nullptr;
    // names are case-sensitive: exactly these eight are registered, each for the unsigned type of its width
    static const char* names[8] = {"SUM8", "Xor8", "CRC16", "Add16", "CRC32", "Mix32", "CRC64", "Mix64"};
    static const size_t widths[8] = {1, 1, 2, 2, 4, 4, 8, 8};
    static ChecksumService<B, T> svc[8] = {{"SUM8"}, {"Xor8"}, {"CRC16"}, {"Add16"}, {"CRC32"}, {"Mix32"}, {"CRC64"}, {"Mix64"}};
    if (!std::is_unsigned_v<T>) return nullptr;
    for (int i = 0; i < 8; i++)
      if (name == names[i] && sizeof(T) == widths[i]) return &svc[i];
    return nullptr;
  }
};

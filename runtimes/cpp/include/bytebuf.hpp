// Verification stand-in for fin-proto-cpp's include/bytebuf.hpp: the call surface the emitted C++ uses.
#pragma once
#include <cstdint>
#include <cstring>
#include <map>
#include <stdexcept>
#include <string>
#include <vector>

namespace vtrace {
inline std::map<std::string, long>& counts() { static std::map<std::string, long> m; return m; }
inline std::vector<std::pair<std::string, std::string>>& ckin() { static std::vector<std::pair<std::string, std::string>> v; return v; }
inline std::vector<std::string>& patches() { static std::vector<std::string> v; return v; }
inline void ev(const char* k) { counts()[k]++; }
inline std::string hex(const uint8_t* p, size_t n) {
  static const char* d = "0123456789abcdef";
  std::string s; s.reserve(2 * n);
  for (size_t i = 0; i < n; i++) { s.push_back(d[p[i] >> 4]); s.push_back(d[p[i] & 15]); }
  return s;
}
}  // namespace vtrace

class ByteBuf {
 public:
  ByteBuf() = default;
  explicit ByteBuf(const std::vector<uint8_t>& d) : data_(d) {}
  size_t writer_index() const { return data_.size(); }
  size_t reader_index() const { return r_; }
  size_t readable_bytes() const { return data_.size() - r_; }
  const std::vector<uint8_t>& data() const { return data_; }

  void write_bytes(const void* p, size_t n) {
    vtrace::ev("w.bytes");
    const uint8_t* b = static_cast<const uint8_t*>(p);
    data_.insert(data_.end(), b, b + n);
  }
  void read_bytes(void* p, size_t n) {
    vtrace::ev("r.bytes");
    need(n);
    if (n) std::memcpy(p, data_.data() + r_, n);
    r_ += n;
  }
  std::string read_string_bytes(size_t n) {
    need(n);
    std::string s(reinterpret_cast<const char*>(data_.data()) + r_, n);
    r_ += n;
    vtrace::ev("r.bytes");
    return s;
  }

#define VBB_INT(NAME, T, UT, N)                                                                              \
  void write_##NAME(T v) { vtrace::ev("w." #NAME ".be"); put_be(static_cast<uint64_t>(static_cast<UT>(v)), N); } \
  void write_##NAME##_le(T v) { vtrace::ev("w." #NAME ".le"); put_le(static_cast<uint64_t>(static_cast<UT>(v)), N); } \
  T read_##NAME() { vtrace::ev("r." #NAME ".be"); return static_cast<T>(static_cast<UT>(get_be(N))); }             \
  T read_##NAME##_le() { vtrace::ev("r." #NAME ".le"); return static_cast<T>(static_cast<UT>(get_le(N))); }        \
  void write_##NAME##_at(size_t pos, T v) { patch(pos, N, false); set_be(pos, static_cast<uint64_t>(static_cast<UT>(v)), N); } \
  void write_##NAME##_le_at(size_t pos, T v) { patch(pos, N, true); set_le(pos, static_cast<uint64_t>(static_cast<UT>(v)), N); }
  VBB_INT(u8, uint8_t, uint8_t, 1)
  VBB_INT(i8, int8_t, uint8_t, 1)
  VBB_INT(u16, uint16_t, uint16_t, 2)
  VBB_INT(i16, int16_t, uint16_t, 2)
  VBB_INT(u32, uint32_t, uint32_t, 4)
  VBB_INT(i32, int32_t, uint32_t, 4)
  VBB_INT(u64, uint64_t, uint64_t, 8)
  VBB_INT(i64, int64_t, uint64_t, 8)
#undef VBB_INT
  void write_f32(float v) { uint32_t b; std::memcpy(&b, &v, 4); vtrace::ev("w.f32.be"); put_be(b, 4); }
  void write_f32_le(float v) { uint32_t b; std::memcpy(&b, &v, 4); vtrace::ev("w.f32.le"); put_le(b, 4); }
  void write_f64(double v) { uint64_t b; std::memcpy(&b, &v, 8); vtrace::ev("w.f64.be"); put_be(b, 8); }
  void write_f64_le(double v) { uint64_t b; std::memcpy(&b, &v, 8); vtrace::ev("w.f64.le"); put_le(b, 8); }
  float read_f32() { vtrace::ev("r.f32.be"); uint32_t b = static_cast<uint32_t>(get_be(4)); float v; std::memcpy(&v, &b, 4); return v; }
  float read_f32_le() { vtrace::ev("r.f32.le"); uint32_t b = static_cast<uint32_t>(get_le(4)); float v; std::memcpy(&v, &b, 4); return v; }
  double read_f64() { vtrace::ev("r.f64.be"); uint64_t b = get_be(8); double v; std::memcpy(&v, &b, 8); return v; }
  double read_f64_le() { vtrace::ev("r.f64.le"); uint64_t b = get_le(8); double v; std::memcpy(&v, &b, 8); return v; }

 private:
  std::vector<uint8_t> data_;
  size_t r_ = 0;
  void need(size_t n) const {
    if (n > data_.size() - r_) throw std::out_of_range("ByteBuf: read past end of buffer");
  }
  void patch(size_t pos, int n, bool le) {
    vtrace::ev("patch");
    vtrace::patches().push_back("pos=" + std::to_string(pos) + " size=" + std::to_string(n) + " le=" + (le ? "true" : "false"));
    if (pos + n > data_.size()) throw std::out_of_range("ByteBuf: patch outside written bytes");
  }
  void put_be(uint64_t v, int n) { for (int i = n - 1; i >= 0; i--) data_.push_back(static_cast<uint8_t>(v >> (8 * i))); }
  void put_le(uint64_t v, int n) { for (int i = 0; i < n; i++) data_.push_back(static_cast<uint8_t>(v >> (8 * i))); }
  void set_be(size_t pos, uint64_t v, int n) { for (int i = 0; i < n; i++) data_[pos + i] = static_cast<uint8_t>(v >> (8 * (n - 1 - i))); }
  void set_le(size_t pos, uint64_t v, int n) { for (int i = 0; i < n; i++) data_[pos + i] = static_cast<uint8_t>(v >> (8 * i)); }
  uint64_t get_be(int n) { need(n); uint64_t v = 0; for (int i = 0; i < n; i++) v = (v << 8) | data_[r_ + i]; r_ += n; return v; }
  uint64_t get_le(int n) { need(n); uint64_t v = 0; for (int i = n - 1; i >= 0; i--) v = (v << 8) | data_[r_ + i]; r_ += n; return v; }
};

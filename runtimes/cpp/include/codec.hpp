// Verification stand-in for fin-proto-cpp's include/codec.hpp.
#pragma once
#include <cstdint>
#include <limits>
#include <memory>
#include <sstream>
#include <stdexcept>
#include <string>
#include <type_traits>
#include <vector>

#include "include/bytebuf.hpp"

namespace codec {

struct BinaryCodec {
  virtual ~BinaryCodec() = default;
  virtual void encode(ByteBuf& buf) const = 0;
  virtual void decode(ByteBuf& buf) = 0;
  virtual bool equals(const BinaryCodec& other) const = 0;
  virtual std::string toString() const = 0;
};

inline bool operator==(const BinaryCodec& a, const BinaryCodec& b) { return a.equals(b); }
inline bool operator!=(const BinaryCodec& a, const BinaryCodec& b) { return !a.equals(b); }

namespace detail {
template <typename T>
void put(ByteBuf& b, T v, bool le) {
  if constexpr (std::is_same_v<T, uint8_t>) b.write_u8(v);
  else if constexpr (std::is_same_v<T, int8_t>) b.write_i8(v);
  else if constexpr (std::is_same_v<T, uint16_t>) { if (le) b.write_u16_le(v); else b.write_u16(v); }
  else if constexpr (std::is_same_v<T, int16_t>) { if (le) b.write_i16_le(v); else b.write_i16(v); }
  else if constexpr (std::is_same_v<T, uint32_t>) { if (le) b.write_u32_le(v); else b.write_u32(v); }
  else if constexpr (std::is_same_v<T, int32_t>) { if (le) b.write_i32_le(v); else b.write_i32(v); }
  else if constexpr (std::is_same_v<T, uint64_t>) { if (le) b.write_u64_le(v); else b.write_u64(v); }
  else if constexpr (std::is_same_v<T, int64_t>) { if (le) b.write_i64_le(v); else b.write_i64(v); }
  else if constexpr (std::is_same_v<T, float>) { if (le) b.write_f32_le(v); else b.write_f32(v); }
  else if constexpr (std::is_same_v<T, double>) { if (le) b.write_f64_le(v); else b.write_f64(v); }
  else static_assert(sizeof(T) == 0, "unsupported scalar type");
}
template <typename T>
T get(ByteBuf& b, bool le) {
  if constexpr (std::is_same_v<T, uint8_t>) return b.read_u8();
  else if constexpr (std::is_same_v<T, int8_t>) return b.read_i8();
  else if constexpr (std::is_same_v<T, uint16_t>) return le ? b.read_u16_le() : b.read_u16();
  else if constexpr (std::is_same_v<T, int16_t>) return le ? b.read_i16_le() : b.read_i16();
  else if constexpr (std::is_same_v<T, uint32_t>) return le ? b.read_u32_le() : b.read_u32();
  else if constexpr (std::is_same_v<T, int32_t>) return le ? b.read_i32_le() : b.read_i32();
  else if constexpr (std::is_same_v<T, uint64_t>) return le ? b.read_u64_le() : b.read_u64();
  else if constexpr (std::is_same_v<T, int64_t>) return le ? b.read_i64_le() : b.read_i64();
  else if constexpr (std::is_same_v<T, float>) return le ? b.read_f32_le() : b.read_f32();
  else if constexpr (std::is_same_v<T, double>) return le ? b.read_f64_le() : b.read_f64();
  else static_assert(sizeof(T) == 0, "unsupported scalar type");
}
template <typename L>
void put_len(ByteBuf& b, size_t n, bool le) {
  static_assert(std::is_unsigned_v<L>, "length prefix must be unsigned");
  if (n > static_cast<size_t>(std::numeric_limits<L>::max())) throw std::length_error("length does not fit its prefix type");
  put<L>(b, static_cast<L>(n), le);
}
template <typename L>
size_t get_len(ByteBuf& b, bool le) { return static_cast<size_t>(get<L>(b, le)); }

inline void wfix(ByteBuf& b, const std::string& s, size_t n, char pad, bool left) {
  if (s.size() > n) throw std::length_error("fixed string longer than its field");
  vtrace::ev("w.fix");
  std::string p(n - s.size(), pad);
  std::string out = left ? p + s : s + p;
  b.write_bytes(out.data(), out.size());
}
inline std::string rfix(ByteBuf& b, size_t n, char pad, bool left) {
  std::string s = b.read_string_bytes(n);
  if (left) { size_t i = 0; while (i < s.size() && s[i] == pad) i++; return s.substr(i); }
  size_t e = s.size(); while (e > 0 && s[e - 1] == pad) e--; return s.substr(0, e);
}
template <typename S>
void wstr(ByteBuf& b, const std::string& s, bool le) { put_len<S>(b, s.size(), le); b.write_bytes(s.data(), s.size()); }
template <typename S>
std::string rstr(ByteBuf& b, bool le) { size_t n = get_len<S>(b, le); if (n > b.readable_bytes()) throw std::out_of_range("string length past end of buffer"); return b.read_string_bytes(n); }
}  // namespace detail

template <typename L, typename T>
void write_basic_type(ByteBuf& b, const std::vector<T>& v) { detail::put_len<L>(b, v.size(), false); for (const auto& x : v) detail::put<T>(b, x, false); }
template <typename L, typename T>
void write_basic_type_le(ByteBuf& b, const std::vector<T>& v) { detail::put_len<L>(b, v.size(), true); for (const auto& x : v) detail::put<T>(b, x, true); }
template <typename L, typename T>
std::vector<T> read_basic_type(ByteBuf& b) { size_t n = detail::get_len<L>(b, false); std::vector<T> v; for (size_t i = 0; i < n; i++) v.push_back(detail::get<T>(b, false)); return v; }
template <typename L, typename T>
std::vector<T> read_basic_type_le(ByteBuf& b) { size_t n = detail::get_len<L>(b, true); std::vector<T> v; for (size_t i = 0; i < n; i++) v.push_back(detail::get<T>(b, true)); return v; }

inline void write_fixed_string(ByteBuf& b, const std::string& s, size_t n, char pad = ' ', bool left = false) { detail::wfix(b, s, n, pad, left); }
inline std::string read_fixed_string(ByteBuf& b, size_t n, char pad = ' ', bool left = false) { return detail::rfix(b, n, pad, left); }
template <typename L>
void write_fixed_string_list(ByteBuf& b, const std::vector<std::string>& v, size_t n, char pad = ' ', bool left = false) { detail::put_len<L>(b, v.size(), false); for (const auto& s : v) detail::wfix(b, s, n, pad, left); }
template <typename L>
void write_fixed_string_list_le(ByteBuf& b, const std::vector<std::string>& v, size_t n, char pad = ' ', bool left = false) { detail::put_len<L>(b, v.size(), true); for (const auto& s : v) detail::wfix(b, s, n, pad, left); }
template <typename L>
std::vector<std::string> read_fixed_string_list(ByteBuf& b, size_t n, char pad = ' ', bool left = false) { size_t c = detail::get_len<L>(b, false); std::vector<std::string> v; for (size_t i = 0; i < c; i++) v.push_back(detail::rfix(b, n, pad, left)); return v; }
template <typename L>
std::vector<std::string> read_fixed_string_list_le(ByteBuf& b, size_t n, char pad = ' ', bool left = false) { size_t c = detail::get_len<L>(b, true); std::vector<std::string> v; for (size_t i = 0; i < c; i++) v.push_back(detail::rfix(b, n, pad, left)); return v; }

template <typename S>
void write_string(ByteBuf& b, const std::string& s) { detail::wstr<S>(b, s, false); }
template <typename S>
void write_string_le(ByteBuf& b, const std::string& s) { detail::wstr<S>(b, s, true); }
template <typename S>
std::string read_string(ByteBuf& b) { return detail::rstr<S>(b, false); }
template <typename S>
std::string read_string_le(ByteBuf& b) { return detail::rstr<S>(b, true); }
template <typename L, typename S>
void write_string_list(ByteBuf& b, const std::vector<std::string>& v) { detail::put_len<L>(b, v.size(), false); for (const auto& s : v) detail::wstr<S>(b, s, false); }
template <typename L, typename S>
void write_string_list_le(ByteBuf& b, const std::vector<std::string>& v) { detail::put_len<L>(b, v.size(), true); for (const auto& s : v) detail::wstr<S>(b, s, true); }
template <typename L, typename S>
std::vector<std::string> read_string_list(ByteBuf& b) { size_t c = detail::get_len<L>(b, false); std::vector<std::string> v; for (size_t i = 0; i < c; i++) v.push_back(detail::rstr<S>(b, false)); return v; }
template <typename L, typename S>
std::vector<std::string> read_string_list_le(ByteBuf& b) { size_t c = detail::get_len<L>(b, true); std::vector<std::string> v; for (size_t i = 0; i < c; i++) v.push_back(detail::rstr<S>(b, true)); return v; }

template <typename L, typename T>
void write_object_List(ByteBuf& b, const std::vector<T>& v) { detail::put_len<L>(b, v.size(), false); for (const auto& x : v) x.encode(b); }
template <typename L, typename T>
void write_object_List_le(ByteBuf& b, const std::vector<T>& v) { detail::put_len<L>(b, v.size(), true); for (const auto& x : v) x.encode(b); }
template <typename L, typename T>
std::vector<T> read_object_List(ByteBuf& b) { size_t c = detail::get_len<L>(b, false); std::vector<T> v; for (size_t i = 0; i < c; i++) { v.emplace_back(); v.back().decode(b); } return v; }
template <typename L, typename T>
std::vector<T> read_object_List_le(ByteBuf& b) { size_t c = detail::get_len<L>(b, true); std::vector<T> v; for (size_t i = 0; i < c; i++) { v.emplace_back(); v.back().decode(b); } return v; }

template <typename T, typename V>
std::string join_vector(const std::vector<V>& v) {
  std::ostringstream oss;
  oss << "[";
  for (size_t i = 0; i < v.size(); i++) {
    if (i) oss << ", ";
    if constexpr (std::is_same_v<V, uint8_t> || std::is_same_v<V, int8_t>) oss << static_cast<int>(v[i]);
    else if constexpr (std::is_base_of_v<BinaryCodec, V>) oss << v[i].toString();
    else oss << v[i];
  }
  oss << "]";
  return oss.str();
}

}  // namespace codec

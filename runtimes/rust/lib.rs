//! Verification stand-in for the `binary_codec` crate: exactly the call surface the emitted Rust uses,
//! plus monitor hooks (trace counters, capture of the bytes handed to checksum services).
use bytes::{Buf, BufMut, Bytes, BytesMut};
use std::collections::HashMap;
use std::sync::Mutex;

pub trait BinaryCodec: Sized {
    fn encode(&self, buf: &mut BytesMut);
    fn decode(buf: &mut Bytes) -> Option<Self>;
}

pub trait LenPrefix: Copy {
    fn put(buf: &mut BytesMut, n: usize, le: bool);
    fn get(buf: &mut Bytes, le: bool) -> Option<usize>;
}
macro_rules! lp { ($t:ty, $w:expr, $put:ident, $putle:ident, $get:ident, $getle:ident) => {
    impl LenPrefix for $t {
        fn put(buf: &mut BytesMut, n: usize, le: bool) { crate::ev("w.prefix"); assert!(n as u128 <= <$t>::MAX as u128, "length does not fit its prefix"); if le { buf.$putle(n as $t) } else { buf.$put(n as $t) } }
        fn get(buf: &mut Bytes, le: bool) -> Option<usize> { crate::ev("r.prefix"); if buf.remaining() < $w { return None; } Some(if le { buf.$getle() } else { buf.$get() } as usize) }
    }
}}
impl LenPrefix for u8 {
    fn put(buf: &mut BytesMut, n: usize, _le: bool) { crate::ev("w.prefix"); assert!(n <= 255, "length does not fit its prefix"); buf.put_u8(n as u8) }
    fn get(buf: &mut Bytes, _le: bool) -> Option<usize> { if buf.remaining() < 1 { return None; } Some(buf.get_u8() as usize) }
}
lp!(u16, 2, put_u16, put_u16_le, get_u16, get_u16_le);
lp!(u32, 4, put_u32, put_u32_le, get_u32, get_u32_le);
lp!(u64, 8, put_u64, put_u64_le, get_u64, get_u64_le);

pub trait Prim: Copy {
    fn put(self, buf: &mut BytesMut, le: bool);
    fn get(buf: &mut Bytes, le: bool) -> Option<Self>;
}
macro_rules! prim { ($t:ty, $w:expr, $put:ident, $putle:ident, $get:ident, $getle:ident) => {
    impl Prim for $t {
        fn put(self, buf: &mut BytesMut, le: bool) { crate::ev("w.prim"); if le { buf.$putle(self) } else { buf.$put(self) } }
        fn get(buf: &mut Bytes, le: bool) -> Option<Self> { if buf.remaining() < $w { return None; } Some(if le { buf.$getle() } else { buf.$get() }) }
    }
}}
prim!(u8,1,put_u8,put_u8,get_u8,get_u8); prim!(i8,1,put_i8,put_i8,get_i8,get_i8);
prim!(u16,2,put_u16,put_u16_le,get_u16,get_u16_le); prim!(i16,2,put_i16,put_i16_le,get_i16,get_i16_le);
prim!(u32,4,put_u32,put_u32_le,get_u32,get_u32_le); prim!(i32,4,put_i32,put_i32_le,get_i32,get_i32_le);
prim!(u64,8,put_u64,put_u64_le,get_u64,get_u64_le); prim!(i64,8,put_i64,put_i64_le,get_i64,get_i64_le);
prim!(f32,4,put_f32,put_f32_le,get_f32,get_f32_le); prim!(f64,8,put_f64,put_f64_le,get_f64,get_f64_le);

pub fn put_char(buf: &mut BytesMut, c: char) { buf.put_u8(c as u8) }
pub fn get_char(buf: &mut Bytes) -> Option<char> { if buf.remaining() < 1 { None } else { Some(buf.get_u8() as char) } }

pub fn put_char_array_with_pad_char(buf: &mut BytesMut, s: &str, n: usize, pad: char, left: bool) {
    let b = s.as_bytes(); assert!(b.len() <= n, "fixed string longer than its field"); ev("w.fix");
    let padn = n - b.len();
    if left { for _ in 0..padn { buf.put_u8(pad as u8) } buf.put_slice(b) } else { buf.put_slice(b); for _ in 0..padn { buf.put_u8(pad as u8) } }
}
pub fn put_char_array(buf: &mut BytesMut, s: &str, n: usize) { put_char_array_with_pad_char(buf, s, n, ' ', false) }
pub fn get_char_array_trim_pad_char(buf: &mut Bytes, n: usize, pad: char, left: bool) -> Option<String> {
    if buf.remaining() < n { return None; }
    let b = buf.split_to(n); let s = String::from_utf8(b.to_vec()).ok()?;
    Some(if left { s.trim_start_matches(pad).to_string() } else { s.trim_end_matches(pad).to_string() })
}
pub fn get_char_array(buf: &mut Bytes, n: usize) -> Option<String> { get_char_array_trim_pad_char(buf, n, ' ', false) }

fn put_str<L: LenPrefix>(buf: &mut BytesMut, s: &str, le: bool) { ev("w.str"); L::put(buf, s.len(), le); buf.put_slice(s.as_bytes()) }
fn get_str<L: LenPrefix>(buf: &mut Bytes, le: bool) -> Option<String> { ev("r.str"); let n = L::get(buf, le)?; if buf.remaining() < n { return None; } String::from_utf8(buf.split_to(n).to_vec()).ok() }
pub fn put_string<L: LenPrefix>(buf: &mut BytesMut, s: &str) { put_str::<L>(buf, s, false) }
pub fn put_string_le<L: LenPrefix>(buf: &mut BytesMut, s: &str) { put_str::<L>(buf, s, true) }
pub fn get_string<L: LenPrefix>(buf: &mut Bytes) -> Option<String> { get_str::<L>(buf, false) }
pub fn get_string_le<L: LenPrefix>(buf: &mut Bytes) -> Option<String> { get_str::<L>(buf, true) }

pub fn put_list<T: Prim, L: LenPrefix>(buf: &mut BytesMut, v: &[T]) { L::put(buf, v.len(), false); for x in v { x.put(buf, false) } }
pub fn put_list_le<T: Prim, L: LenPrefix>(buf: &mut BytesMut, v: &[T]) { L::put(buf, v.len(), true); for x in v { x.put(buf, true) } }
pub fn get_list<T: Prim, L: LenPrefix>(buf: &mut Bytes) -> Option<Vec<T>> { let n = L::get(buf, false)?; let mut v = Vec::new(); for _ in 0..n { v.push(T::get(buf, false)?) } Some(v) }
pub fn get_list_le<T: Prim, L: LenPrefix>(buf: &mut Bytes) -> Option<Vec<T>> { let n = L::get(buf, true)?; let mut v = Vec::new(); for _ in 0..n { v.push(T::get(buf, true)?) } Some(v) }
pub fn put_char_list<L: LenPrefix>(buf: &mut BytesMut, v: &[char]) { L::put(buf, v.len(), false); for c in v { put_char(buf, *c) } }
pub fn get_char_list<L: LenPrefix>(buf: &mut Bytes) -> Option<Vec<char>> { let n = L::get(buf, false)?; let mut v = Vec::new(); for _ in 0..n { v.push(get_char(buf)?) } Some(v) }

pub fn put_string_list<L: LenPrefix, S: LenPrefix>(buf: &mut BytesMut, v: &[String]) { L::put(buf, v.len(), false); for s in v { put_str::<S>(buf, s, false) } }
pub fn put_string_list_le<L: LenPrefix, S: LenPrefix>(buf: &mut BytesMut, v: &[String]) { L::put(buf, v.len(), true); for s in v { put_str::<S>(buf, s, true) } }
pub fn get_string_list<L: LenPrefix, S: LenPrefix>(buf: &mut Bytes) -> Option<Vec<String>> { let n = L::get(buf, false)?; let mut v = Vec::new(); for _ in 0..n { v.push(get_str::<S>(buf, false)?) } Some(v) }
pub fn get_string_list_le<L: LenPrefix, S: LenPrefix>(buf: &mut Bytes) -> Option<Vec<String>> { let n = L::get(buf, true)?; let mut v = Vec::new(); for _ in 0..n { v.push(get_str::<S>(buf, true)?) } Some(v) }

pub fn put_fixed_string_list_with_pad_char<L: LenPrefix>(buf: &mut BytesMut, v: &[String], n: usize, pad: char, left: bool) { L::put(buf, v.len(), false); for s in v { put_char_array_with_pad_char(buf, s, n, pad, left) } }
pub fn put_fixed_string_list_with_pad_char_le<L: LenPrefix>(buf: &mut BytesMut, v: &[String], n: usize, pad: char, left: bool) { L::put(buf, v.len(), true); for s in v { put_char_array_with_pad_char(buf, s, n, pad, left) } }
pub fn put_fixed_string_list<L: LenPrefix>(buf: &mut BytesMut, v: &[String], n: usize) { put_fixed_string_list_with_pad_char::<L>(buf, v, n, ' ', false) }
pub fn put_fixed_string_list_le<L: LenPrefix>(buf: &mut BytesMut, v: &[String], n: usize) { put_fixed_string_list_with_pad_char_le::<L>(buf, v, n, ' ', false) }
pub fn get_fixed_string_list_trim_pad_char<L: LenPrefix>(buf: &mut Bytes, n: usize, pad: char, left: bool) -> Option<Vec<String>> { let c = L::get(buf, false)?; let mut v = Vec::new(); for _ in 0..c { v.push(get_char_array_trim_pad_char(buf, n, pad, left)?) } Some(v) }
pub fn get_fixed_string_list_trim_pad_char_le<L: LenPrefix>(buf: &mut Bytes, n: usize, pad: char, left: bool) -> Option<Vec<String>> { let c = L::get(buf, true)?; let mut v = Vec::new(); for _ in 0..c { v.push(get_char_array_trim_pad_char(buf, n, pad, left)?) } Some(v) }
pub fn get_fixed_string_list<L: LenPrefix>(buf: &mut Bytes, n: usize) -> Option<Vec<String>> { get_fixed_string_list_trim_pad_char::<L>(buf, n, ' ', false) }
pub fn get_fixed_string_list_le<L: LenPrefix>(buf: &mut Bytes, n: usize) -> Option<Vec<String>> { get_fixed_string_list_trim_pad_char_le::<L>(buf, n, ' ', false) }

pub fn put_object_list<T: BinaryCodec, L: LenPrefix>(buf: &mut BytesMut, v: &[T]) { L::put(buf, v.len(), false); for x in v { x.encode(buf) } }
pub fn put_object_list_le<T: BinaryCodec, L: LenPrefix>(buf: &mut BytesMut, v: &[T]) { L::put(buf, v.len(), true); for x in v { x.encode(buf) } }
pub fn get_object_list<T: BinaryCodec, L: LenPrefix>(buf: &mut Bytes) -> Option<Vec<T>> { let n = L::get(buf, false)?; let mut v = Vec::new(); for _ in 0..n { v.push(T::decode(buf)?) } Some(v) }
pub fn get_object_list_le<T: BinaryCodec, L: LenPrefix>(buf: &mut Bytes) -> Option<Vec<T>> { let n = L::get(buf, true)?; let mut v = Vec::new(); for _ in 0..n { v.push(T::decode(buf)?) } Some(v) }

#[derive(Debug, Clone, Copy, PartialEq)]
pub enum Checksum { U8(u8), U16(u16), U32(u32), U64(u64), I8(i8), I16(i16), I32(i32), I64(i64) }
pub trait ChecksumService: Send + Sync { fn calc(&self, buf: &BytesMut) -> Checksum; }

fn crc32(data: &[u8]) -> u32 {
    let mut crc: u32 = 0xffff_ffff;
    for &b in data {
        crc ^= b as u32;
        for _ in 0..8 { crc = if crc & 1 != 0 { (crc >> 1) ^ 0xedb8_8320 } else { crc >> 1 }; }
    }
    !crc
}
struct Algo(&'static str);
impl ChecksumService for Algo {
    fn calc(&self, buf: &BytesMut) -> Checksum {
        let data: Vec<u8> = buf.to_vec();
        CKIN.lock().unwrap().push((self.0.to_string(), data.clone()));
        ev("cksum_in");
        let c = crc32(&data);
        let sum = data.iter().fold(0u32, |a, b| a.wrapping_add(*b as u32));
        let xor = data.iter().fold(0u8, |a, b| a ^ *b);
        match self.0 {
            "SUM8" => Checksum::U8(sum as u8),
            "Xor8" => Checksum::U8(xor),
            "CRC16" => Checksum::U16(c as u16),
            "Add16" => Checksum::U16(sum as u16),
            "CRC32" => Checksum::U32(c),
            "Mix32" => Checksum::U32(c ^ 0x5a5a_5a5a),
            "Mix64" => Checksum::U64((((c as u64) << 32) | (c as u64)) ^ 0x0123_4567_89ab_cdef),
            _ => Checksum::U64(((c as u64) << 32) | ((c ^ 0xffff_ffff) as u64)),
        }
    }
}
static ALGOS: [Algo; 8] = [Algo("SUM8"), Algo("CRC16"), Algo("CRC32"), Algo("CRC64"), Algo("Xor8"), Algo("Add16"), Algo("Mix32"), Algo("Mix64")];

pub struct ChecksumServiceContext { m: Mutex<HashMap<String, &'static dyn ChecksumService>> }
impl ChecksumServiceContext {
    pub fn get(&self, name: &str) -> Option<&'static dyn ChecksumService> {
        if !REGISTRY_ENABLED.load(std::sync::atomic::Ordering::SeqCst) { return None; }
        self.m.lock().unwrap().get(name).copied()
    }
    pub fn register(&self, name: &str, s: &'static dyn ChecksumService) { self.m.lock().unwrap().insert(name.to_string(), s); }
}
pub static CHECKSUM_SERVICE_CONTEXT: std::sync::LazyLock<ChecksumServiceContext> = std::sync::LazyLock::new(|| {
    let c = ChecksumServiceContext { m: Mutex::new(HashMap::new()) };
    for a in ALGOS.iter() { c.register(a.0, a); }   // names are case-sensitive
    c
});

// ---- monitor side
/// the driver empties / restores the registry between encodes (case kind U)
pub static REGISTRY_ENABLED: std::sync::atomic::AtomicBool = std::sync::atomic::AtomicBool::new(true);
pub static CKIN: Mutex<Vec<(String, Vec<u8>)>> = Mutex::new(Vec::new());
pub static TRACE: Mutex<std::collections::BTreeMap<&'static str, u64>> = Mutex::new(std::collections::BTreeMap::new());
pub fn ev(kind: &'static str) { *TRACE.lock().unwrap().entry(kind).or_insert(0) += 1; }

package vrt;

import java.util.ArrayList;
import java.util.List;
import java.util.TreeMap;

/** Monitor side: trace counters, checksum-input capture, back-patch events. */
public final class Trace {
    public static final TreeMap<String, Integer> COUNTS = new TreeMap<>();
    public static final List<String[]> CKIN = new ArrayList<>();
    public static final List<String> PATCHES = new ArrayList<>();
    public static void ev(String k) { COUNTS.merge(k, 1, Integer::sum); }
    public static void ckin(String name, byte[] d) { CKIN.add(new String[] {name, hex(d)}); }
    public static void patch(int pos, int size, boolean le) { ev("patch"); PATCHES.add("pos=" + pos + " size=" + size + " le=" + le); }
    public static String hex(byte[] d) {
        StringBuilder sb = new StringBuilder();
        for (byte b : d) sb.append(String.format("%02x", b & 0xff));
        return sb.toString();
    }
    public static byte[] unhex(String s) {
        byte[] b = new byte[s.length() / 2];
        for (int i = 0; i < b.length; i++) b[i] = (byte) Integer.parseInt(s.substring(2 * i, 2 * i + 2), 16);
        return b;
    }
}

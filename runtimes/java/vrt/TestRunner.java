package vrt;

import java.lang.reflect.Method;

/** Reflective stand-in for the JUnit4 runner: runs every @org.junit.Test method of the named classes. */
public final class TestRunner {
    public static void main(String[] args) {
        int failed = 0;
        for (String cn : args) {
            try {
                Class<?> c = Class.forName(cn);
                int n = 0;
                for (Method m : c.getDeclaredMethods()) {
                    if (m.getAnnotation(org.junit.Test.class) == null) continue;
                    n++;
                    try {
                        Object o = c.getDeclaredConstructor().newInstance();
                        m.invoke(o);
                        System.out.println("TEST " + cn + "." + m.getName() + " PASS");
                    } catch (Throwable t) {
                        Throwable cause = t.getCause() != null ? t.getCause() : t;
                        failed++;
                        String msg = String.valueOf(cause).replace('\n', ' ');
                        System.out.println("TEST " + cn + "." + m.getName() + " FAIL " + (msg.length() > 400 ? msg.substring(0, 400) : msg));
                    }
                }
                if (n == 0) System.out.println("TEST " + cn + " NOTESTS");
            } catch (Throwable t) {
                failed++;
                System.out.println("TEST " + cn + " LOADFAIL " + t);
            }
        }
        System.out.println("DONE");
        System.exit(failed == 0 ? 0 : 1);
    }
}

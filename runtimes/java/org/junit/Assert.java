package org.junit;

import java.util.Objects;

public class Assert {
    protected Assert() {}
    public static void assertEquals(Object expected, Object actual) {
        if (!Objects.equals(expected, actual)) throw new AssertionError("expected:<" + expected + "> but was:<" + actual + ">");
    }
    public static void assertEquals(long expected, long actual) {
        if (expected != actual) throw new AssertionError("expected:<" + expected + "> but was:<" + actual + ">");
    }
    public static void assertTrue(boolean c) { if (!c) throw new AssertionError("expected true"); }
    public static void assertFalse(boolean c) { if (c) throw new AssertionError("expected false"); }
    public static void assertNotNull(Object o) { if (o == null) throw new AssertionError("expected non-null"); }
    public static void assertNull(Object o) { if (o != null) throw new AssertionError("expected null"); }
    public static void fail(String m) { throw new AssertionError(m); }
}

package com.finproto.codec;

import io.netty.buffer.ByteBuf;
import java.nio.charset.StandardCharsets;

/** Stand-in for fin-proto-java's BinaryCodec: the interface the emitted classes implement plus the fixed-string helpers they call unqualified. */
public interface BinaryCodec {
    void encode(ByteBuf byteBuf);

    void decode(ByteBuf byteBuf);

    default void writeFixedString(ByteBuf buf, String s, int n) {
        writeFixedString(buf, s, n, ' ', false);
    }

    default void writeFixedString(ByteBuf buf, String s, int n, char pad, boolean fromLeft) {
        byte[] b = s == null ? new byte[0] : s.getBytes(StandardCharsets.UTF_8);
        if (b.length > n) {
            throw new IllegalArgumentException("fixed string of " + b.length + " bytes longer than " + n);
        }
        vrt.Trace.ev("w.fix");
        if (fromLeft) {
            for (int i = b.length; i < n; i++) buf.writeByte((byte) pad);
            buf.writeBytes(b);
        } else {
            buf.writeBytes(b);
            for (int i = b.length; i < n; i++) buf.writeByte((byte) pad);
        }
    }

    default String readFixedString(ByteBuf buf, int n) {
        return readFixedString(buf, n, ' ', false);
    }

    default String readFixedString(ByteBuf buf, int n, char pad, boolean fromLeft) {
        byte[] b = new byte[n];
        buf.readBytes(b);
        int lo = 0, hi = n;
        if (fromLeft) {
            while (lo < hi && b[lo] == (byte) pad) lo++;
        } else {
            while (hi > lo && b[hi - 1] == (byte) pad) hi--;
        }
        return new String(b, lo, hi - lo, StandardCharsets.UTF_8);
    }
}

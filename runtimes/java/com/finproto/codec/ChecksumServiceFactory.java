package com.finproto.codec;

import io.netty.buffer.ByteBuf;
import java.util.zip.CRC32;

/** SUM8/CRC16/CRC32/CRC64 are registered; every other name is not (null). Values are delivered as Integer because that is the type the emitted code asks for. */
public final class ChecksumServiceFactory {
    private static final ChecksumServiceFactory INSTANCE = new ChecksumServiceFactory();

    public static ChecksumServiceFactory getInstance() {
        return INSTANCE;
    }

    /** monitor side: the driver empties / restores the registry between encodes (case kind U) */
    public static volatile boolean verifEnabled = true;

    @SuppressWarnings("unchecked")
    public <B, T> ChecksumService<B, T> getChecksumService(String name) {
        if (!verifEnabled) {
            return null;
        }
        if (!java.util.Arrays.asList("SUM8", "CRC16", "CRC32", "CRC64", "Xor8", "Add16", "Mix32", "Mix64").contains(name)) {
            return null;   // names are case-sensitive
        }
        ChecksumService<ByteBuf, Integer> s = buf -> {
            byte[] data = buf.writtenBytes();
            vrt.Trace.ckin(name, data);
            vrt.Trace.ev("cksum_in");
            CRC32 c = new CRC32();
            c.update(data);
            long v = c.getValue();
            int sum = 0, xor = 0;
            for (byte x : data) { sum += (x & 0xff); xor ^= (x & 0xff); }
            switch (name) {
                case "SUM8": return sum & 0xff;
                case "Xor8": return xor & 0xff;
                case "CRC16": return (int) (v & 0xffff);
                case "Add16": return sum & 0xffff;
                case "CRC32": return (int) v;
                case "Mix32": return (int) (v ^ 0x5a5a5a5aL);
                case "Mix64": return (int) ((((v << 32) | v) ^ 0x0123456789abcdefL) & 0xffffffffL);
                default: return (int) ((v ^ 0xffffffffL) & 0xffffffffL);
            }
        };
        return (ChecksumService<B, T>) (ChecksumService<?, ?>) s;
    }
}

package com.finproto.codec;

import io.netty.buffer.ByteBuf;
import java.util.zip.CRC32;

/** SUM8/CRC16/CRC32/CRC64 are registered; every other name is not (null). Values are delivered as Integer because that is the type the emitted code asks for. */
public final class ChecksumServiceFactory {
    private static final ChecksumServiceFactory INSTANCE = new ChecksumServiceFactory();

    public static ChecksumServiceFactory getInstance() {
        return INSTANCE;
    }

    @SuppressWarnings("unchecked")
    public <B, T> ChecksumService<B, T> getChecksumService(String name) {
        if (!name.equals("SUM8") && !name.equals("CRC16") && !name.equals("CRC32") && !name.equals("CRC64")) {
            return null;
        }
        ChecksumService<ByteBuf, Integer> s = buf -> {
            byte[] data = buf.writtenBytes();
            vrt.Trace.ckin(name, data);
            vrt.Trace.ev("cksum_in");
            CRC32 c = new CRC32();
            c.update(data);
            long v = c.getValue();
            switch (name) {
                case "SUM8": {
                    int sum = 0;
                    for (byte x : data) sum += (x & 0xff);
                    return sum & 0xff;
                }
                case "CRC16":
                    return (int) (v & 0xffff);
                case "CRC32":
                    return (int) v;
                default:
                    return (int) ((v ^ 0xffffffffL) & 0xffffffffL);
            }
        };
        return (ChecksumService<B, T>) (ChecksumService<?, ?>) s;
    }
}

package io.netty.buffer;

import java.nio.charset.Charset;
import java.util.Arrays;

/** Stand-in for Netty's ByteBuf: the methods the emitted Java uses plus the commonly used rest of the public API, with Netty's signatures (int lengths, IndexOutOfBounds on over-read). Slices are copies (the emitted code never writes through a slice). */
public class ByteBuf {
    private byte[] data;
    private int w;
    private int r;

    ByteBuf(int cap) {
        data = new byte[Math.max(cap, 16)];
    }

    ByteBuf(byte[] src) {
        data = Arrays.copyOf(src, src.length);
        w = src.length;
    }

    private void ensure(int n) {
        if (w + n > data.length) data = Arrays.copyOf(data, Math.max(data.length * 2, w + n));
    }

    private void need(int n) {
        if (n < 0 || r + n > w) throw new IndexOutOfBoundsException("readerIndex(" + r + ") + length(" + n + ") exceeds writerIndex(" + w + ")");
    }

    public int writerIndex() { return w; }
    public int readerIndex() { return r; }
    public int readableBytes() { return w - r; }
    public byte[] writtenBytes() { return Arrays.copyOf(data, w); }

    private void putBE(int idx, long v, int n) { for (int i = 0; i < n; i++) data[idx + i] = (byte) (v >>> (8 * (n - 1 - i))); }
    private void putLE(int idx, long v, int n) { for (int i = 0; i < n; i++) data[idx + i] = (byte) (v >>> (8 * i)); }
    private long getBE(int idx, int n) { long v = 0; for (int i = 0; i < n; i++) v = (v << 8) | (data[idx + i] & 0xffL); return v; }
    private long getLE(int idx, int n) { long v = 0; for (int i = n - 1; i >= 0; i--) v = (v << 8) | (data[idx + i] & 0xffL); return v; }
    private ByteBuf wBE(long v, int n, String k) { vrt.Trace.ev(k); ensure(n); putBE(w, v, n); w += n; return this; }
    private ByteBuf wLE(long v, int n, String k) { vrt.Trace.ev(k); ensure(n); putLE(w, v, n); w += n; return this; }
    private long rBE(int n, String k) { vrt.Trace.ev(k); need(n); long v = getBE(r, n); r += n; return v; }
    private long rLE(int n, String k) { vrt.Trace.ev(k); need(n); long v = getLE(r, n); r += n; return v; }
    private void chk(int idx, int n) { if (idx < 0 || idx + n > data.length) throw new IndexOutOfBoundsException("index " + idx + " length " + n); }

    public ByteBuf writeByte(int v) { return wBE(v, 1, "w.u8"); }
    public ByteBuf writeShort(int v) { return wBE(v, 2, "w.u16.be"); }
    public ByteBuf writeShortLE(int v) { return wLE(v, 2, "w.u16.le"); }
    public ByteBuf writeInt(int v) { return wBE(v, 4, "w.u32.be"); }
    public ByteBuf writeIntLE(int v) { return wLE(v, 4, "w.u32.le"); }
    public ByteBuf writeLong(long v) { return wBE(v, 8, "w.u64.be"); }
    public ByteBuf writeLongLE(long v) { return wLE(v, 8, "w.u64.le"); }
    public ByteBuf writeFloat(float v) { return wBE(Float.floatToRawIntBits(v), 4, "w.f32.be"); }
    public ByteBuf writeFloatLE(float v) { return wLE(Float.floatToRawIntBits(v), 4, "w.f32.le"); }
    public ByteBuf writeDouble(double v) { return wBE(Double.doubleToRawLongBits(v), 8, "w.f64.be"); }
    public ByteBuf writeDoubleLE(double v) { return wLE(Double.doubleToRawLongBits(v), 8, "w.f64.le"); }
    public ByteBuf writeBytes(byte[] b) { vrt.Trace.ev("w.bytes"); ensure(b.length); System.arraycopy(b, 0, data, w, b.length); w += b.length; return this; }

    public byte readByte() { return (byte) rBE(1, "r.u8"); }
    public short readShort() { return (short) rBE(2, "r.u16.be"); }
    public short readShortLE() { return (short) rLE(2, "r.u16.le"); }
    public int readInt() { return (int) rBE(4, "r.u32.be"); }
    public int readIntLE() { return (int) rLE(4, "r.u32.le"); }
    public long readLong() { return rBE(8, "r.u64.be"); }
    public long readLongLE() { return rLE(8, "r.u64.le"); }
    public float readFloat() { return Float.intBitsToFloat((int) rBE(4, "r.f32.be")); }
    public float readFloatLE() { return Float.intBitsToFloat((int) rLE(4, "r.f32.le")); }
    public double readDouble() { return Double.longBitsToDouble(rBE(8, "r.f64.be")); }
    public double readDoubleLE() { return Double.longBitsToDouble(rLE(8, "r.f64.le")); }
    public ByteBuf readBytes(byte[] dst) { vrt.Trace.ev("r.bytes"); need(dst.length); System.arraycopy(data, r, dst, 0, dst.length); r += dst.length; return this; }

    public CharSequence readCharSequence(int length, Charset charset) {
        vrt.Trace.ev("r.bytes");
        need(length);
        String s = new String(data, r, length, charset);
        r += length;
        return s;
    }

    public ByteBuf setByte(int idx, int v) { vrt.Trace.patch(idx, 1, false); chk(idx, 1); putBE(idx, v, 1); return this; }
    public ByteBuf setShort(int idx, int v) { vrt.Trace.patch(idx, 2, false); chk(idx, 2); putBE(idx, v, 2); return this; }
    public ByteBuf setShortLE(int idx, int v) { vrt.Trace.patch(idx, 2, true); chk(idx, 2); putLE(idx, v, 2); return this; }
    public ByteBuf setInt(int idx, int v) { vrt.Trace.patch(idx, 4, false); chk(idx, 4); putBE(idx, v, 4); return this; }
    public ByteBuf setIntLE(int idx, int v) { vrt.Trace.patch(idx, 4, true); chk(idx, 4); putLE(idx, v, 4); return this; }
    public ByteBuf setLong(int idx, long v) { vrt.Trace.patch(idx, 8, false); chk(idx, 8); putBE(idx, v, 8); return this; }
    public ByteBuf setLongLE(int idx, long v) { vrt.Trace.patch(idx, 8, true); chk(idx, 8); putLE(idx, v, 8); return this; }

    // ---- further parts of Netty's public ByteBuf API (so that emitted code may legitimately use them)
    public short readUnsignedByte() { return (short) (rBE(1, "r.u8") & 0xff); }
    public int readUnsignedShort() { return (int) (rBE(2, "r.u16.be") & 0xffff); }
    public int readUnsignedShortLE() { return (int) (rLE(2, "r.u16.le") & 0xffff); }
    public long readUnsignedInt() { return rBE(4, "r.u32.be") & 0xffffffffL; }
    public long readUnsignedIntLE() { return rLE(4, "r.u32.le") & 0xffffffffL; }
    public boolean readBoolean() { return rBE(1, "r.u8") != 0; }
    public ByteBuf writeBoolean(boolean v) { return wBE(v ? 1 : 0, 1, "w.u8"); }
    public char readChar() { return (char) rBE(2, "r.u16.be"); }
    public ByteBuf writeChar(int v) { return wBE(v, 2, "w.u16.be"); }

    private void gchk(int idx, int n) { if (idx < 0 || n < 0 || idx + n > data.length) throw new IndexOutOfBoundsException("index " + idx + " length " + n); }
    public byte getByte(int idx) { gchk(idx, 1); return (byte) getBE(idx, 1); }
    public short getUnsignedByte(int idx) { gchk(idx, 1); return (short) (getBE(idx, 1) & 0xff); }
    public short getShort(int idx) { gchk(idx, 2); return (short) getBE(idx, 2); }
    public short getShortLE(int idx) { gchk(idx, 2); return (short) getLE(idx, 2); }
    public int getUnsignedShort(int idx) { gchk(idx, 2); return (int) getBE(idx, 2); }
    public int getUnsignedShortLE(int idx) { gchk(idx, 2); return (int) getLE(idx, 2); }
    public int getInt(int idx) { gchk(idx, 4); return (int) getBE(idx, 4); }
    public int getIntLE(int idx) { gchk(idx, 4); return (int) getLE(idx, 4); }
    public long getUnsignedInt(int idx) { gchk(idx, 4); return getBE(idx, 4); }
    public long getUnsignedIntLE(int idx) { gchk(idx, 4); return getLE(idx, 4); }
    public long getLong(int idx) { gchk(idx, 8); return getBE(idx, 8); }
    public long getLongLE(int idx) { gchk(idx, 8); return getLE(idx, 8); }
    public ByteBuf getBytes(int idx, byte[] dst) { gchk(idx, dst.length); System.arraycopy(data, idx, dst, 0, dst.length); return this; }
    public ByteBuf setBytes(int idx, byte[] src) { vrt.Trace.patch(idx, src.length, false); chk(idx, src.length); System.arraycopy(src, 0, data, idx, src.length); return this; }

    public boolean isReadable() { return w > r; }
    public boolean isReadable(int n) { return w - r >= n; }
    public int capacity() { return data.length; }
    public ByteBuf readerIndex(int i) { if (i < 0 || i > w) throw new IndexOutOfBoundsException("readerIndex " + i); r = i; return this; }
    public ByteBuf writerIndex(int i) { if (i < r || i > data.length) throw new IndexOutOfBoundsException("writerIndex " + i); w = i; return this; }
    private int markR, markW;
    public ByteBuf markReaderIndex() { markR = r; return this; }
    public ByteBuf resetReaderIndex() { r = markR; return this; }
    public ByteBuf markWriterIndex() { markW = w; return this; }
    public ByteBuf resetWriterIndex() { w = markW; return this; }
    public ByteBuf skipBytes(int n) { vrt.Trace.ev("r.bytes"); need(n); r += n; return this; }
    public ByteBuf clear() { r = 0; w = 0; return this; }
    public ByteBuf ensureWritable(int n) { ensure(n); return this; }
    public ByteBuf writeZero(int n) { vrt.Trace.ev("w.bytes"); ensure(n); Arrays.fill(data, w, w + n, (byte) 0); w += n; return this; }
    public ByteBuf writeBytes(byte[] b, int off, int len) { vrt.Trace.ev("w.bytes"); ensure(len); System.arraycopy(b, off, data, w, len); w += len; return this; }
    public ByteBuf writeBytes(ByteBuf src) { int n = src.readableBytes(); byte[] t = new byte[n]; src.readBytes(t); return writeBytes(t); }
    public ByteBuf writeBytes(ByteBuf src, int len) { byte[] t = new byte[len]; src.readBytes(t); return writeBytes(t); }
    public ByteBuf readBytes(byte[] dst, int off, int len) { vrt.Trace.ev("r.bytes"); need(len); System.arraycopy(data, r, dst, off, len); r += len; return this; }
    public ByteBuf readBytes(int len) { vrt.Trace.ev("r.bytes"); need(len); ByteBuf b = new ByteBuf(Arrays.copyOfRange(data, r, r + len)); r += len; return b; }
    public ByteBuf readSlice(int len) { return readBytes(len); }
    public ByteBuf readRetainedSlice(int len) { return readBytes(len); }
    public ByteBuf copy() { return new ByteBuf(Arrays.copyOfRange(data, r, w)); }
    public ByteBuf copy(int idx, int len) { gchk(idx, len); return new ByteBuf(Arrays.copyOfRange(data, idx, idx + len)); }
    public ByteBuf slice() { return copy(); }
    public ByteBuf slice(int idx, int len) { return copy(idx, len); }
    public ByteBuf duplicate() { ByteBuf b = new ByteBuf(Arrays.copyOf(data, w)); b.r = r; return b; }
    public ByteBuf retainedDuplicate() { return duplicate(); }
    public ByteBuf retain() { return this; }
    public boolean release() { return true; }
    public int refCnt() { return 1; }
    public boolean hasArray() { return false; }
    public int writeCharSequence(CharSequence s, Charset charset) { byte[] b = s.toString().getBytes(charset); writeBytes(b); return b.length; }
    public CharSequence getCharSequence(int idx, int len, Charset charset) { gchk(idx, len); return new String(data, idx, len, charset); }
    public String toString(Charset charset) { return new String(data, r, w - r, charset); }
    public String toString(int idx, int len, Charset charset) { gchk(idx, len); return new String(data, idx, len, charset); }
    public java.nio.ByteBuffer nioBuffer() { return java.nio.ByteBuffer.wrap(Arrays.copyOfRange(data, r, w)); }
    public java.nio.ByteBuffer nioBuffer(int idx, int len) { gchk(idx, len); return java.nio.ByteBuffer.wrap(Arrays.copyOfRange(data, idx, idx + len)); }
}

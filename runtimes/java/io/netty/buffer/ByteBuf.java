package io.netty.buffer;

import java.nio.charset.Charset;
import java.util.Arrays;

/** Minimal stand-in for Netty's ByteBuf: the methods the emitted Java uses, with Netty's signatures (int lengths, IndexOutOfBounds on over-read). */
public class ByteBuf {
    private byte[] data;
    private int w;
    private int r;

    ByteBuf(int cap) {
        data = new byte[Math.max(cap, 16)];
    }

    ByteBuf(byte[] src) {
        data = Arrays.copyOf(src, src.length);
        w = src.length;
    }

    private void ensure(int n) {
        if (w + n > data.length) data = Arrays.copyOf(data, Math.max(data.length * 2, w + n));
    }

    private void need(int n) {
        if (n < 0 || r + n > w) throw new IndexOutOfBoundsException("readerIndex(" + r + ") + length(" + n + ") exceeds writerIndex(" + w + ")");
    }

    public int writerIndex() { return w; }
    public int readerIndex() { return r; }
    public int readableBytes() { return w - r; }
    public byte[] writtenBytes() { return Arrays.copyOf(data, w); }

    private void putBE(int idx, long v, int n) { for (int i = 0; i < n; i++) data[idx + i] = (byte) (v >>> (8 * (n - 1 - i))); }
    private void putLE(int idx, long v, int n) { for (int i = 0; i < n; i++) data[idx + i] = (byte) (v >>> (8 * i)); }
    private long getBE(int idx, int n) { long v = 0; for (int i = 0; i < n; i++) v = (v << 8) | (data[idx + i] & 0xffL); return v; }
    private long getLE(int idx, int n) { long v = 0; for (int i = n - 1; i >= 0; i--) v = (v << 8) | (data[idx + i] & 0xffL); return v; }
    private ByteBuf wBE(long v, int n, String k) { vrt.Trace.ev(k); ensure(n); putBE(w, v, n); w += n; return this; }
    private ByteBuf wLE(long v, int n, String k) { vrt.Trace.ev(k); ensure(n); putLE(w, v, n); w += n; return this; }
    private long rBE(int n, String k) { vrt.Trace.ev(k); need(n); long v = getBE(r, n); r += n; return v; }
    private long rLE(int n, String k) { vrt.Trace.ev(k); need(n); long v = getLE(r, n); r += n; return v; }
    private void chk(int idx, int n) { if (idx < 0 || idx + n > data.length) throw new IndexOutOfBoundsException("index " + idx + " length " + n); }

    public ByteBuf writeByte(int v) { return wBE(v, 1, "w.u8"); }
    public ByteBuf writeShort(int v) { return wBE(v, 2, "w.u16.be"); }
    public ByteBuf writeShortLE(int v) { return wLE(v, 2, "w.u16.le"); }
    public ByteBuf writeInt(int v) { return wBE(v, 4, "w.u32.be"); }
    public ByteBuf writeIntLE(int v) { return wLE(v, 4, "w.u32.le"); }
    public ByteBuf writeLong(long v) { return wBE(v, 8, "w.u64.be"); }
    public ByteBuf writeLongLE(long v) { return wLE(v, 8, "w.u64.le"); }
    public ByteBuf writeFloat(float v) { return wBE(Float.floatToRawIntBits(v), 4, "w.f32.be"); }
    public ByteBuf writeFloatLE(float v) { return wLE(Float.floatToRawIntBits(v), 4, "w.f32.le"); }
    public ByteBuf writeDouble(double v) { return wBE(Double.doubleToRawLongBits(v), 8, "w.f64.be"); }
    public ByteBuf writeDoubleLE(double v) { return wLE(Double.doubleToRawLongBits(v), 8, "w.f64.le"); }
    public ByteBuf writeBytes(byte[] b) { vrt.Trace.ev("w.bytes"); ensure(b.length); System.arraycopy(b, 0, data, w, b.length); w += b.length; return this; }

    public byte readByte() { return (byte) rBE(1, "r.u8"); }
    public short readShort() { return (short) rBE(2, "r.u16.be"); }
    public short readShortLE() { return (short) rLE(2, "r.u16.le"); }
    public int readInt() { return (int) rBE(4, "r.u32.be"); }
    public int readIntLE() { return (int) rLE(4, "r.u32.le"); }
    public long readLong() { return rBE(8, "r.u64.be"); }
    public long readLongLE() { return rLE(8, "r.u64.le"); }
    public float readFloat() { return Float.intBitsToFloat((int) rBE(4, "r.f32.be")); }
    public float readFloatLE() { return Float.intBitsToFloat((int) rLE(4, "r.f32.le")); }
    public double readDouble() { return Double.longBitsToDouble(rBE(8, "r.f64.be")); }
    public double readDoubleLE() { return Double.longBitsToDouble(rLE(8, "r.f64.le")); }
    public ByteBuf readBytes(byte[] dst) { vrt.Trace.ev("r.bytes"); need(dst.length); System.arraycopy(data, r, dst, 0, dst.length); r += dst.length; return this; }

    public CharSequence readCharSequence(int length, Charset charset) {
        vrt.Trace.ev("r.bytes");
        need(length);
        String s = new String(data, r, length, charset);
        r += length;
        return s;
    }

    public ByteBuf setByte(int idx, int v) { vrt.Trace.patch(idx, 1, false); chk(idx, 1); putBE(idx, v, 1); return this; }
    public ByteBuf setShort(int idx, int v) { vrt.Trace.patch(idx, 2, false); chk(idx, 2); putBE(idx, v, 2); return this; }
    public ByteBuf setShortLE(int idx, int v) { vrt.Trace.patch(idx, 2, true); chk(idx, 2); putLE(idx, v, 2); return this; }
    public ByteBuf setInt(int idx, int v) { vrt.Trace.patch(idx, 4, false); chk(idx, 4); putBE(idx, v, 4); return this; }
    public ByteBuf setIntLE(int idx, int v) { vrt.Trace.patch(idx, 4, true); chk(idx, 4); putLE(idx, v, 4); return this; }
    public ByteBuf setLong(int idx, long v) { vrt.Trace.patch(idx, 8, false); chk(idx, 8); putBE(idx, v, 8); return this; }
    public ByteBuf setLongLE(int idx, long v) { vrt.Trace.patch(idx, 8, true); chk(idx, 8); putLE(idx, v, 8); return this; }
}

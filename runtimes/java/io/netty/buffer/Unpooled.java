package io.netty.buffer;

public final class Unpooled {
    private Unpooled() {}
    public static final ByteBuf EMPTY_BUFFER = new ByteBuf(0);
    public static ByteBuf buffer() { return new ByteBuf(256); }
    public static ByteBuf buffer(int cap) { return new ByteBuf(cap); }
    public static ByteBuf buffer(int cap, int maxCap) { return new ByteBuf(cap); }
    public static ByteBuf directBuffer() { return new ByteBuf(256); }
    public static ByteBuf directBuffer(int cap) { return new ByteBuf(cap); }
    public static ByteBuf wrappedBuffer(byte[] b) { return new ByteBuf(b); }
    public static ByteBuf copiedBuffer(byte[] b) { return new ByteBuf(b); }
    public static ByteBuf copiedBuffer(CharSequence s, java.nio.charset.Charset cs) { return new ByteBuf(s.toString().getBytes(cs)); }
}

package io.netty.buffer;

public final class Unpooled {
    private Unpooled() {}
    public static ByteBuf buffer() { return new ByteBuf(256); }
    public static ByteBuf buffer(int cap) { return new ByteBuf(cap); }
    public static ByteBuf wrappedBuffer(byte[] b) { return new ByteBuf(b); }
}

// Package codec is the verification stand-in for github.com/xinchentechnote/fin-proto-go/codec:
// exactly the call surface the emitted Go code uses, with trace hooks for the monitors.
package codec

import (
	"bytes"
	"encoding/binary"
	"fmt"
	"hash/crc32"
	"io"
	"strings"
)

// ---- monitor side (not part of the emulated API)

var TraceCounts = map[string]int{}
var CkIn [][2]string // (name, hex of bytes handed to Calc)

func ev(kind string) { TraceCounts[kind]++ }

type BinaryCodec interface {
	Encode(buf *bytes.Buffer) error
	Decode(buf *bytes.Buffer) error
}
type Num interface {
	~int8 | ~int16 | ~int32 | ~int64 | ~uint8 | ~uint16 | ~uint32 | ~uint64 | ~float32 | ~float64
}
type Uns interface {
	~uint8 | ~uint16 | ~uint32 | ~uint64
}
type ChecksumService[B any, T any] interface{ Calc(b B) T }

type algo8 struct{ n string }
type algo16 struct{ n string }
type algo32 struct{ n string }
type algo64 struct{ n string }

func rec(name string, b *bytes.Buffer) []byte {
	d := append([]byte(nil), b.Bytes()...)
	CkIn = append(CkIn, [2]string{name, fmt.Sprintf("%x", d)})
	ev("cksum_in")
	return d
}
func bsum(d []byte) (s uint32, x uint8) {
	for _, b := range d {
		s += uint32(b)
		x ^= b
	}
	return
}
func (a algo8) Calc(b *bytes.Buffer) uint8 {
	s, x := bsum(rec(a.n, b))
	if a.n == "Xor8" {
		return x
	}
	return uint8(s)
}
func (a algo16) Calc(b *bytes.Buffer) uint16 {
	d := rec(a.n, b)
	if a.n == "Add16" {
		s, _ := bsum(d)
		return uint16(s)
	}
	return uint16(crc32.ChecksumIEEE(d))
}
func (a algo32) Calc(b *bytes.Buffer) uint32 {
	c := crc32.ChecksumIEEE(rec(a.n, b))
	if a.n == "Mix32" {
		return c ^ 0x5a5a5a5a
	}
	return c
}
func (a algo64) Calc(b *bytes.Buffer) uint64 {
	c := uint64(crc32.ChecksumIEEE(rec(a.n, b)))
	if a.n == "Mix64" {
		return (c<<32 | c) ^ 0x0123456789abcdef
	}
	return c<<32 | (c ^ 0xffffffff)
}

// names are case-sensitive
var registry = map[string]any{"SUM8": algo8{"SUM8"}, "CRC16": algo16{"CRC16"}, "CRC32": algo32{"CRC32"}, "CRC64": algo64{"CRC64"},
	"Xor8": algo8{"Xor8"}, "Add16": algo16{"Add16"}, "Mix32": algo32{"Mix32"}, "Mix64": algo64{"Mix64"}}

func Register(name string, s any) { registry[name] = s }
// monitor side: the driver empties / restores the registry between encodes (case kind U)
var registryEnabled = true

func VerifSetRegistryEnabled(on bool) { registryEnabled = on }
func Get(name string) (any, bool) {
	if !registryEnabled {
		return nil, false
	}
	s, ok := registry[name]
	return s, ok
}

func order(o binary.ByteOrder) string {
	if o == binary.ByteOrder(binary.LittleEndian) {
		return "le"
	}
	return "be"
}
func wr[T Num](buf *bytes.Buffer, o binary.ByteOrder, v T) error {
	ev(fmt.Sprintf("w.%T.%s", v, order(o)))
	return binary.Write(buf, o, v)
}
func rd[T Num](buf *bytes.Buffer, o binary.ByteOrder) (T, error) {
	var v T
	ev(fmt.Sprintf("r.%T.%s", v, order(o)))
	err := binary.Read(buf, o, &v)
	return v, err
}
func rbytes(buf *bytes.Buffer, n int) ([]byte, error) {
	if n < 0 || n > buf.Len() {
		return nil, fmt.Errorf("read %d bytes past end of buffer (%d left)", n, buf.Len())
	}
	b := make([]byte, n)
	_, err := io.ReadFull(buf, b)
	ev("r.bytes")
	return b, err
}
func WriteBasicType[T Num](buf *bytes.Buffer, v T) error   { return wr(buf, binary.BigEndian, v) }
func WriteBasicTypeLE[T Num](buf *bytes.Buffer, v T) error { return wr(buf, binary.LittleEndian, v) }
func ReadBasicType[T Num](buf *bytes.Buffer) (T, error)    { return rd[T](buf, binary.BigEndian) }
func ReadBasicTypeLE[T Num](buf *bytes.Buffer) (T, error)  { return rd[T](buf, binary.LittleEndian) }

func wstr[L Uns](buf *bytes.Buffer, o binary.ByteOrder, s string) error {
	if uint64(L(len(s))) != uint64(len(s)) {
		return fmt.Errorf("string of %d bytes does not fit its length prefix", len(s))
	}
	if err := wr(buf, o, L(len(s))); err != nil {
		return err
	}
	ev("w.bytes")
	buf.WriteString(s)
	return nil
}
func rstr[L Uns](buf *bytes.Buffer, o binary.ByteOrder) (string, error) {
	n, err := rd[L](buf, o)
	if err != nil {
		return "", err
	}
	if uint64(n) > uint64(buf.Len()) {
		return "", fmt.Errorf("string length %d past end of buffer", n)
	}
	b, err := rbytes(buf, int(n))
	if err != nil {
		return "", err
	}
	return string(b), nil
}
func WriteString[L Uns](buf *bytes.Buffer, s string) error   { return wstr[L](buf, binary.BigEndian, s) }
func WriteStringLE[L Uns](buf *bytes.Buffer, s string) error { return wstr[L](buf, binary.LittleEndian, s) }
func ReadString[L Uns](buf *bytes.Buffer) (string, error)    { return rstr[L](buf, binary.BigEndian) }
func ReadStringLE[L Uns](buf *bytes.Buffer) (string, error)  { return rstr[L](buf, binary.LittleEndian) }

func WriteFixedStringWithPadding(buf *bytes.Buffer, s string, n int, pad rune, left bool) error {
	if len(s) > n {
		return fmt.Errorf("fixed string of %d bytes longer than %d", len(s), n)
	}
	ev("w.fix")
	p := strings.Repeat(string(pad), n-len(s))
	if left {
		buf.WriteString(p + s)
	} else {
		buf.WriteString(s + p)
	}
	return nil
}
func WriteFixedString(buf *bytes.Buffer, s string, n int) error {
	return WriteFixedStringWithPadding(buf, s, n, ' ', false)
}
func ReadFixedStringTrimPadding(buf *bytes.Buffer, n int, pad rune, left bool) (string, error) {
	b, err := rbytes(buf, n)
	if err != nil {
		return "", err
	}
	if left {
		return strings.TrimLeft(string(b), string(pad)), nil
	}
	return strings.TrimRight(string(b), string(pad)), nil
}
func ReadFixedString(buf *bytes.Buffer, n int) (string, error) {
	return ReadFixedStringTrimPadding(buf, n, ' ', false)
}
func wlist[L Uns, T any](buf *bytes.Buffer, o binary.ByteOrder, xs []T, f func(T) error) error {
	if uint64(L(len(xs))) != uint64(len(xs)) {
		return fmt.Errorf("list of %d elements does not fit its length prefix", len(xs))
	}
	if err := wr(buf, o, L(len(xs))); err != nil {
		return err
	}
	for _, x := range xs {
		if err := f(x); err != nil {
			return err
		}
	}
	return nil
}
func rlist[L Uns, T any](buf *bytes.Buffer, o binary.ByteOrder, f func() (T, error)) ([]T, error) {
	n, err := rd[L](buf, o)
	if err != nil {
		return nil, err
	}
	var out []T
	for i := uint64(0); i < uint64(n); i++ {
		x, err := f()
		if err != nil {
			return nil, err
		}
		out = append(out, x)
	}
	return out, nil
}
func WriteBasicTypeList[L Uns, T Num](buf *bytes.Buffer, xs []T) error {
	return wlist[L](buf, binary.BigEndian, xs, func(x T) error { return WriteBasicType(buf, x) })
}
func WriteBasicTypeListLE[L Uns, T Num](buf *bytes.Buffer, xs []T) error {
	return wlist[L](buf, binary.LittleEndian, xs, func(x T) error { return WriteBasicTypeLE(buf, x) })
}
func ReadBasicTypeList[L Uns, T Num](buf *bytes.Buffer) ([]T, error) {
	return rlist[L](buf, binary.BigEndian, func() (T, error) { return ReadBasicType[T](buf) })
}
func ReadBasicTypeListLE[L Uns, T Num](buf *bytes.Buffer) ([]T, error) {
	return rlist[L](buf, binary.LittleEndian, func() (T, error) { return ReadBasicTypeLE[T](buf) })
}
func WriteStringList[L Uns, S Uns](buf *bytes.Buffer, xs []string) error {
	return wlist[L](buf, binary.BigEndian, xs, func(x string) error { return WriteString[S](buf, x) })
}
func WriteStringListLE[L Uns, S Uns](buf *bytes.Buffer, xs []string) error {
	return wlist[L](buf, binary.LittleEndian, xs, func(x string) error { return WriteStringLE[S](buf, x) })
}
func ReadStringList[L Uns, S Uns](buf *bytes.Buffer) ([]string, error) {
	return rlist[L](buf, binary.BigEndian, func() (string, error) { return ReadString[S](buf) })
}
func ReadStringListLE[L Uns, S Uns](buf *bytes.Buffer) ([]string, error) {
	return rlist[L](buf, binary.LittleEndian, func() (string, error) { return ReadStringLE[S](buf) })
}
func WriteFixedStringList[L Uns](buf *bytes.Buffer, xs []string, n int) error {
	return wlist[L](buf, binary.BigEndian, xs, func(x string) error { return WriteFixedString(buf, x, n) })
}
func WriteFixedStringListLE[L Uns](buf *bytes.Buffer, xs []string, n int) error {
	return wlist[L](buf, binary.LittleEndian, xs, func(x string) error { return WriteFixedString(buf, x, n) })
}
func WriteFixedStringListWithPadding[L Uns](buf *bytes.Buffer, xs []string, n int, pad rune, left bool) error {
	return wlist[L](buf, binary.BigEndian, xs, func(x string) error { return WriteFixedStringWithPadding(buf, x, n, pad, left) })
}
func WriteFixedStringListWithPaddingLE[L Uns](buf *bytes.Buffer, xs []string, n int, pad rune, left bool) error {
	return wlist[L](buf, binary.LittleEndian, xs, func(x string) error { return WriteFixedStringWithPadding(buf, x, n, pad, left) })
}
func ReadFixedStringList[L Uns](buf *bytes.Buffer, n int) ([]string, error) {
	return rlist[L](buf, binary.BigEndian, func() (string, error) { return ReadFixedString(buf, n) })
}
func ReadFixedStringListLE[L Uns](buf *bytes.Buffer, n int) ([]string, error) {
	return rlist[L](buf, binary.LittleEndian, func() (string, error) { return ReadFixedString(buf, n) })
}
func ReadFixedStringListTrimPadding[L Uns](buf *bytes.Buffer, n int, pad rune, left bool) ([]string, error) {
	return rlist[L](buf, binary.BigEndian, func() (string, error) { return ReadFixedStringTrimPadding(buf, n, pad, left) })
}
func ReadFixedStringListTrimPaddingLE[L Uns](buf *bytes.Buffer, n int, pad rune, left bool) ([]string, error) {
	return rlist[L](buf, binary.LittleEndian, func() (string, error) { return ReadFixedStringTrimPadding(buf, n, pad, left) })
}
func WriteObjectList[L Uns, T BinaryCodec](buf *bytes.Buffer, xs []T) error {
	return wlist[L](buf, binary.BigEndian, xs, func(x T) error { return x.Encode(buf) })
}
func WriteObjectListLE[L Uns, T BinaryCodec](buf *bytes.Buffer, xs []T) error {
	return wlist[L](buf, binary.LittleEndian, xs, func(x T) error { return x.Encode(buf) })
}
func ReadObjectList[L Uns, T BinaryCodec](buf *bytes.Buffer, mk func() T) ([]T, error) {
	return rlist[L](buf, binary.BigEndian, func() (T, error) { x := mk(); return x, x.Decode(buf) })
}
func ReadObjectListLE[L Uns, T BinaryCodec](buf *bytes.Buffer, mk func() T) ([]T, error) {
	return rlist[L](buf, binary.LittleEndian, func() (T, error) { x := mk(); return x, x.Decode(buf) })
}

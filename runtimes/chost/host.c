/* Host for libpacketdsl.so's FormatPacketDslExport, built with ASan+UBSan (+LSan).
 * usage: host <listfile>   each line of listfile: "<id> <path-of-input-file>"
 * output: BEGIN <id> / RESULT <id> <len> <hex>  ; DONE at the end. The id is printed (and flushed) before the call. */
#include <stdio.h>
#include <stdlib.h>
#include <string.h>

extern char* FormatPacketDslExport(char* dsl);

int main(int argc, char** argv) {
  if (argc < 2) return 2;
  FILE* lf = fopen(argv[1], "r");
  if (!lf) return 2;
  char id[256], path[4096];
  while (fscanf(lf, "%255s %4095s", id, path) == 2) {
    FILE* f = fopen(path, "rb");
    if (!f) { printf("SKIP %s\n", id); continue; }
    fseek(f, 0, SEEK_END);
    long n = ftell(f);
    fseek(f, 0, SEEK_SET);
    char* buf = (char*)malloc((size_t)n + 1);
    if (n > 0 && fread(buf, 1, (size_t)n, f) != (size_t)n) { fclose(f); free(buf); printf("SKIP %s\n", id); continue; }
    fclose(f);
    buf[n] = 0;
    printf("BEGIN %s\n", id);
    fflush(stdout);
    char* r = FormatPacketDslExport(buf);
    if (!r) {
      printf("RESULT %s -1 null\n", id);
    } else {
      size_t len = strlen(r);
      printf("RESULT %s %zu ", id, len);
      for (size_t i = 0; i < len; i++) printf("%02x", (unsigned char)r[i]);
      printf("\n");
      free(r);
    }
    free(buf);
    fflush(stdout);
  }
  fclose(lf);
  printf("DONE\n");
  return 0;
}

"""Java lane: one javac for all emitted packages (plus a second pass without the packages that failed), one JVM per item."""
import glob
import os
import re
import shutil
from concurrent.futures import ThreadPoolExecutor

from . import lanes, tools

NAME = 'java'
RT_SRC = os.path.join(tools.VERIF, 'runtimes', 'java')
RT_DIR = os.path.join(tools.VERIF, '.cache', 'rt', 'java')
JT = {'u8': ('byte', 'Byte'), 'i8': ('byte', 'Byte'), 'char': ('byte', 'Byte'), 'u16': ('short', 'Short'), 'i16': ('short', 'Short'),
      'u32': ('int', 'Integer'), 'i32': ('int', 'Integer'), 'u64': ('long', 'Long'), 'i64': ('long', 'Long'),
      'f32': ('float', 'Float'), 'f64': ('double', 'Double')}


def ensure_runtime():
    srcs = sorted(glob.glob(RT_SRC + '/**/*.java', recursive=True))
    stamp = os.path.join(RT_DIR, 'vrt', 'TestRunner.class')
    if os.path.exists(stamp) and all(os.path.getmtime(stamp) >= os.path.getmtime(s) for s in srcs):
        return
    shutil.rmtree(RT_DIR, ignore_errors=True)
    os.makedirs(RT_DIR, exist_ok=True)
    rc, log = tools.run(['javac', '-nowarn', '-d', RT_DIR] + srcs)
    if rc != 0:
        raise tools.BuildError('java runtime build failed:\n' + log)


def jstr(s):
    h = s.encode('utf-8').hex()
    if len(h) <= 30000:
        return 'S("%s")' % h
    # a Java string constant is limited to 65535 bytes: join chunks at run time
    return 'S(String.join("", %s))' % ', '.join('"%s"' % h[i:i + 30000] for i in range(0, len(h), 30000))


def jint(v, ntype):
    w = {'u8': 8, 'i8': 8, 'char': 8, 'u16': 16, 'i16': 16, 'u32': 32, 'i32': 32, 'u64': 64, 'i64': 64}[ntype]
    v &= (1 << w) - 1
    if v >= 1 << (w - 1):
        v -= 1 << w
    if w == 8:
        return '(byte)%d' % v
    if w == 16:
        return '(short)%d' % v
    if w == 32:
        return '%d' % v
    return '%dL' % v


class Gen:
    def __init__(self, item):
        self.it = item
        self.p = item.proto
        self.L = []
        self.tmp = 0
        self.qual = {}     # inline type name -> qualified class name
        for pk in self.p.packets:
            self.qual[pk.name] = pk.name
            self.collect_inline(pk.name, pk.fields)

    def collect_inline(self, prefix, fields):
        for f in fields:
            if f.kind == 'inline':
                q = prefix + '.' + f.name
                self.qual[f.name] = q
                f._jq = q           # inline objects of one name may be declared in several packets: the class is nested in ITS owner
                self.collect_inline(q, f.fields)

    def newtmp(self):
        self.tmp += 1
        return 't%d' % self.tmp

    def build_fields(self, var, fields, msg):
        for f in fields:
            e = self.p.eff(f)
            v = msg[f.name]
            setter = '%s.set%s' % (var, self.it.camel(f.name))
            if f.repeat:
                lv = self.newtmp()
                self.L.append('        java.util.ArrayList<%s> %s = new java.util.ArrayList<>();' % (self.boxed(f, e), lv))
                for x in v:
                    self.L.append('        %s.add(%s);' % (lv, self.value(f, e, x)))
                self.L.append('        %s(%s);' % (setter, lv))
            else:
                self.L.append('        %s(%s);' % (setter, self.value(f, e, v)))

    def boxed(self, f, e):
        k = e.kind
        if k in ('num', 'len', 'cksum'):
            return JT[e.ntype][1]
        if k == 'char':
            return 'Byte'
        if k in ('fix', 'dyn'):
            return 'String'
        if k == 'ref':
            return self.qual[f.packet]
        if k == 'inline':
            return f._jq
        return 'com.finproto.codec.BinaryCodec'

    def value(self, f, e, v):
        k = e.kind
        if k in ('num', 'len', 'cksum'):
            if e.ntype == 'f32':
                return 'Float.intBitsToFloat(0x%x)' % v if v < 2 ** 31 else 'Float.intBitsToFloat((int)0x%xL)' % v
            if e.ntype == 'f64':
                return 'Double.longBitsToDouble(%s)' % jint(v, 'u64')
            return jint(v, e.ntype)
        if k == 'char':
            return '(byte)%d' % v
        if k in ('fix', 'dyn'):
            return jstr(v)
        if k in ('ref', 'inline', 'match'):
            if k == 'ref':
                tn, fl, body = f.packet, self.p.packet(f.packet).fields, v
            elif k == 'inline':
                tn, fl, body = f.name, e.fields, v
            else:
                tn, fl, body = v[0], self.p.packet(v[0]).fields, v[1]
            t = self.newtmp()
            qn = f._jq if k == 'inline' else self.qual[tn]
            self.L.append('        %s %s = new %s();' % (qn, t, qn))
            self.build_fields(t, fl, body)
            return t
        raise ValueError(k)

    def dump_funcs(self):
        L = self.L
        done = set()

        def dump_fields(tname, fields, qn=None):
            qn = qn or self.qual[tname]
            tname = qn.replace('.', '__')
            if tname in done:
                return
            done.add(tname)
            subs = []
            L.append('    static String dump_%s(%s o) {' % (tname, qn))
            L.append('        if (o == null) return "null";')
            L.append('        StringBuilder sb = new StringBuilder("{");')
            for f in fields:
                e = self.p.eff(f)
                acc = 'o.get%s()' % self.it.camel(f.name)
                L.append('        sb.append("%s=");' % f.name)
                if f.repeat:
                    L.append('        if (%s == null) sb.append("null"); else { sb.append("["); int i = 0; for (%s x : %s) { if (i++ > 0) sb.append(","); sb.append(%s); } sb.append("]"); }' % (
                        acc, self.boxed(f, e), acc, self.dump_one(f, e, 'x', subs)))
                else:
                    L.append('        sb.append(%s);' % self.dump_one(f, e, acc, subs))
                L.append('        sb.append(";");')
            L.append('        return sb.append("}").toString();')
            L.append('    }')
            for nm, fl, q in subs:
                dump_fields(nm, fl, q)
        for pk in self.p.packets:
            dump_fields(pk.name, pk.fields)
        L.append('    static String dump_dyn(com.finproto.codec.BinaryCodec o) {')
        L.append('        if (o == null) return "null";')
        for pk in self.p.packets:
            L.append('        if (o.getClass() == %s.class) return "<%s>" + dump_%s((%s) o);' % (pk.name, pk.name, pk.name, pk.name))
        L.append('        return "<?" + o.getClass().getSimpleName() + ">null";')
        L.append('    }')

    def dump_one(self, f, e, acc, subs):
        k = e.kind
        if k in ('num', 'len', 'cksum'):
            if e.ntype == 'f32':
                return 'String.format("f%%08x", Float.floatToRawIntBits(%s))' % acc
            if e.ntype == 'f64':
                return 'String.format("f%%016x", Double.doubleToRawLongBits(%s))' % acc
            return 'String.valueOf(%s)' % acc
        if k == 'char':
            return 'String.valueOf(%s)' % acc
        if k in ('fix', 'dyn'):
            return 'DS(%s)' % acc
        if k == 'ref':
            return 'dump_%s(%s)' % (f.packet, acc)
        if k == 'inline':
            subs.append((f.name, e.fields, f._jq))
            return 'dump_%s(%s)' % (f._jq.replace('.', '__'), acc)
        if k == 'match':
            return 'dump_dyn(%s)' % acc
        raise ValueError(k)

    def driver(self, pkg):
        it = self.it
        root = self.p.root
        L = self.L
        L.append('package %s;' % pkg)
        L.append('import io.netty.buffer.ByteBuf;')
        L.append('import io.netty.buffer.Unpooled;')
        L.append('public class VDriver {')
        L.append(HELPERS)
        for i, (shape, msg) in enumerate(it.msgs):
            L.append('    static %s build%d() {' % (root.name, i))
            L.append('        %s r = new %s();' % (root.name, root.name))
            self.build_fields('r', root.fields, msg)
            L.append('        return r;')
            L.append('    }')
        L.append('    static %s build(int i) {' % root.name)
        L.append('        switch (i) {')
        for i in range(len(it.msgs)):
            L.append('            case %d: return build%d();' % (i, i))
        L.append('        }')
        L.append('        throw new IllegalArgumentException("no such message");')
        L.append('    }')
        self.dump_funcs()
        L.append(MAIN.replace('@ROOT@', root.name).replace('@DUMPROOT@', 'dump_' + root.name))
        L.append('}')
        return '\n'.join(L) + '\n'


HELPERS = r'''
    static String S(String h) { return new String(vrt.Trace.unhex(h), java.nio.charset.StandardCharsets.UTF_8); }
    static String DS(String s) { if (s == null) return "null"; return "s" + vrt.Trace.hex(s.getBytes(java.nio.charset.StandardCharsets.UTF_8)); }
    static String clean(Throwable t) { String s = String.valueOf(t).replace('\n', ' '); return s.length() > 300 ? s.substring(0, 300) : s; }
'''

MAIN = r'''
    public static void main(String[] args) throws Exception {
        java.io.BufferedReader br = new java.io.BufferedReader(new java.io.FileReader(args[0]));
        java.io.PrintStream out = new java.io.PrintStream(new java.io.BufferedOutputStream(new java.io.FileOutputStream(java.io.FileDescriptor.out), 1 << 16), false, "UTF-8");
        String line;
        while ((line = br.readLine()) != null) {
            String[] parts = line.trim().split("\\s+");
            if (parts.length < 2) continue;
            if (parts[0].equals("E")) {
                int i = Integer.parseInt(parts[1]);
                out.println("BEGIN E " + i); out.flush();
                vrt.Trace.CKIN.clear(); vrt.Trace.PATCHES.clear();
                try {
                    @ROOT@ obj = build(i);
                    ByteBuf buf = Unpooled.buffer();
                    obj.encode(buf);
                    out.println("ENC " + i + " " + vrt.Trace.hex(buf.writtenBytes()));
                } catch (StackOverflowError | Exception e) {
                    out.println("ENCERR " + i + " " + clean(e));
                }
                for (String[] c : vrt.Trace.CKIN) out.println("CKIN " + i + " " + c[0] + " " + c[1]);
                for (String p : vrt.Trace.PATCHES) out.println("PATCH " + i + " " + p);
            } else if (parts[0].equals("A")) {
                // a connection buffer in use: two copies of message 0 are written, the first is decoded (consumed), then message i is appended
                int i = Integer.parseInt(parts[1]);
                out.println("BEGIN A " + i); out.flush();
                try {
                    ByteBuf buf = Unpooled.buffer();
                    boolean ready = false;
                    try {
                        build(0).encode(buf); build(0).encode(buf);
                        new @ROOT@().decode(buf);
                        ready = true;
                    } catch (StackOverflowError | Exception e) {
                        out.println("ENCA " + i + " SKIP " + clean(e));
                    }
                    if (ready) {
                        build(i).encode(buf);
                        byte[] all = buf.writtenBytes();
                        out.println("ENCA " + i + " " + vrt.Trace.hex(java.util.Arrays.copyOfRange(all, buf.readerIndex(), all.length)));
                    }
                } catch (StackOverflowError | Exception e) {
                    out.println("ENCA " + i + " ERR " + clean(e));
                }
            } else if (parts[0].equals("U")) {
                int i = Integer.parseInt(parts[1]);
                out.println("BEGIN U " + i); out.flush();
                for (int st = 0; st < 2; st++) {
                    String tg = st == 0 ? "ENCU" : "ENCG";
                    com.finproto.codec.ChecksumServiceFactory.verifEnabled = (st == 1);
                    try {
                        @ROOT@ obj = build(i);
                        ByteBuf buf = Unpooled.buffer();
                        obj.encode(buf);
                        out.println(tg + " " + i + " " + vrt.Trace.hex(buf.writtenBytes()));
                    } catch (StackOverflowError | Exception e) {
                        out.println(tg + " " + i + " ERR " + clean(e));
                    }
                }
                com.finproto.codec.ChecksumServiceFactory.verifEnabled = true;
            } else if (parts[0].equals("R")) {
                String cid = parts[1];
                out.println("BEGIN R " + cid); out.flush();
                byte[] a = parts[2].equals("-") ? new byte[0] : vrt.Trace.unhex(parts[2]);
                byte[] b = parts[3].equals("-") ? new byte[0] : vrt.Trace.unhex(parts[3]);
                @ROOT@ obj = new @ROOT@();
                try { obj.decode(Unpooled.wrappedBuffer(a)); } catch (StackOverflowError | Exception e) { }
                try {
                    ByteBuf buf = Unpooled.wrappedBuffer(b);
                    obj.decode(buf);
                    out.println("DEC " + cid + " " + buf.readableBytes() + " " + @DUMPROOT@(obj));
                } catch (StackOverflowError | Exception e) {
                    out.println("DECERR " + cid + " " + clean(e));
                }
            } else if (parts[0].equals("D")) {
                String cid = parts[1];
                out.println("BEGIN D " + cid); out.flush();
                byte[] data = parts[2].equals("-") ? new byte[0] : vrt.Trace.unhex(parts[2]);
                @ROOT@ obj = new @ROOT@();
                try {
                    ByteBuf buf = Unpooled.wrappedBuffer(data);
                    obj.decode(buf);
                    out.println("DEC " + cid + " " + buf.readableBytes() + " " + @DUMPROOT@(obj));
                } catch (StackOverflowError | Exception e) {
                    out.println("DECERR " + cid + " " + clean(e));
                    continue;
                }
                try {
                    ByteBuf b2 = Unpooled.buffer();
                    obj.encode(b2);
                    out.println("REENC " + cid + " " + vrt.Trace.hex(b2.writtenBytes()));
                } catch (StackOverflowError | Exception e) {
                    out.println("REENCERR " + cid + " " + clean(e));
                }
            }
            out.flush();
        }
        StringBuilder sb = new StringBuilder("{");
        int n = 0;
        for (java.util.Map.Entry<String, Integer> e : vrt.Trace.COUNTS.entrySet()) { if (n++ > 0) sb.append(", "); sb.append("\"" + e.getKey() + "\": " + e.getValue()); }
        out.println("TRACE " + sb + "}");
        out.println("DONE");
        out.flush();
    }
'''


def parse_javac_errors(log, root):
    """map source path -> list of error lines"""
    by = {}
    for line in log.split('\n'):
        m = re.match(r'^(\S+\.java):(\d+): error: (.*)', line)
        if m:
            by.setdefault(os.path.relpath(m.group(1), root) if os.path.isabs(m.group(1)) else m.group(1), []).append('%s:%s: %s' % (os.path.basename(m.group(1)), m.group(2), m.group(3)))
    return by


class Batch:
    def __init__(self, work):
        self.dir = os.path.join(work, 'java')
        self.src = os.path.join(self.dir, 'src')
        self.tsrc = os.path.join(self.dir, 'tsrc')
        self.cls = os.path.join(self.dir, 'classes')
        os.makedirs(self.src, exist_ok=True)
        os.makedirs(self.cls, exist_ok=True)
        self.status = {}
        ensure_runtime()

    def pkg(self, it):
        return 'vp.' + it.tag.lower()

    def pkgdir(self, it):
        return os.path.join('vp', it.tag.lower())

    def javac(self, files, outdir, extra_cp=()):
        if not files:
            return 0, ''
        argf = os.path.join(self.dir, 'argfile.txt')
        with open(argf, 'w') as f:
            for x in files:
                f.write('"%s"\n' % x)
        cp = os.pathsep.join([RT_DIR] + list(extra_cp))
        return tools.run(['javac', '-nowarn', '-proc:none', '-Xmaxerrs', '100000', '-encoding', 'UTF-8', '-cp', cp, '-d', outdir, '@' + argf], cwd=self.dir, timeout=1800)

    def compile_groups(self, groups, outdir, extra_cp=()):
        """groups: tag -> [files]; returns tag -> (ok, log).  javac reports errors phase by phase (parse errors hide
        type errors), so failing groups are removed and javac is re-run until the remaining set compiles."""
        res = {t: (True, '') for t in groups}
        owner = {}
        for t, fs in groups.items():
            for f in fs:
                owner[os.path.abspath(f)] = t
        live = dict(groups)
        for _ in range(40):
            allf = [f for fs in live.values() for f in fs]
            shutil.rmtree(outdir, ignore_errors=True)
            os.makedirs(outdir, exist_ok=True)
            rc, log = self.javac(allf, outdir, extra_cp)
            if rc == 0:
                return res
            bad = {}
            for line in log.split('\n'):
                m = re.match(r'^(\S+\.java):(\d+): error: (.*)', line)
                if m:
                    pth = m.group(1) if os.path.isabs(m.group(1)) else os.path.join(self.dir, m.group(1))
                    t = owner.get(os.path.abspath(pth))
                    if t:
                        bad.setdefault(t, []).append('%s:%s: %s' % (os.path.basename(m.group(1)), m.group(2), m.group(3)))
            if not bad:
                for t in live:
                    res[t] = (False, 'javac failed without attributable diagnostics:\n' + log[-1500:])
                return res
            for t, errs in bad.items():
                res[t] = (False, '\n'.join(errs[:15]))
                live.pop(t, None)
        for t in live:
            res[t] = (False, 'javac did not converge')
        return res

    def prepare(self, items, want_drivers=True):
        groups = {}
        for it in items:
            fs = []
            for name, data in it.files['java'].items():
                if not name.startswith('main/'):
                    continue
                p = os.path.join(self.src, it.tag, name)
                os.makedirs(os.path.dirname(p), exist_ok=True)
                with open(p, 'wb') as f:
                    f.write(data)
                fs.append(p)
            groups[it.tag] = fs
        res = self.compile_groups(groups, self.cls)
        for it in items:
            ok, log = res[it.tag]
            self.status[it.tag] = ('ok', '') if ok else ('emitted-fail', log)
        if not want_drivers:
            return
        dgroups = {}
        self.dcls = os.path.join(self.dir, 'dclasses')
        os.makedirs(self.dcls, exist_ok=True)
        for it in items:
            if self.status[it.tag][0] != 'ok':
                continue
            try:
                src = Gen(it).driver(self.pkg(it))
            except Exception as e:
                self.status[it.tag] = ('driver-fail', 'driver generation: %r' % (e,))
                continue
            p = os.path.join(self.dir, 'dsrc', it.tag, self.pkgdir(it), 'VDriver.java')
            os.makedirs(os.path.dirname(p), exist_ok=True)
            with open(p, 'w') as f:
                f.write(src)
            dgroups[it.tag] = [p]
        res = self.compile_groups(dgroups, self.dcls, extra_cp=[self.cls])
        for t, (ok, log) in res.items():
            if not ok:
                self.status[t] = ('driver-fail', log)

    def run(self, item, enc_ids, dec_cases):
        out = lanes.LaneOut()
        st, log = self.status.get(item.tag, ('not-run', ''))
        if st != 'ok':
            out.build = st
            out.log = log
            return out
        d = os.path.join(self.dir, 'run', item.tag)
        os.makedirs(d, exist_ok=True)
        cases = os.path.join(d, 'cases.txt')
        lanes.write_cases(cases, enc_ids, dec_cases)
        cp = os.pathsep.join([RT_DIR, self.cls, self.dcls])
        rc, text, fired = lanes.run_child(['java', '-Xss2m', '-XX:TieredStopAtLevel=1', '-XX:+UseSerialGC', '-cp', cp, self.pkg(item) + '.VDriver', cases], d, os.path.join(d, 'run.log'))
        return lanes.finish_run(out, rc, text, fired)

    def run_selftests(self, items, jobs=16):
        res = {}
        groups = {}
        tcls = os.path.join(self.dir, 'tclasses')
        os.makedirs(tcls, exist_ok=True)
        names = {}
        for it in items:
            if self.status.get(it.tag, ('x',))[0] == 'emitted-fail':
                res[it.tag] = ('build-fail', 'main classes do not build: ' + self.status[it.tag][1][:600])
                continue
            fs = []
            cn = []
            for name, data in it.files['java'].items():
                if not name.startswith('test/'):
                    continue
                p = os.path.join(self.tsrc, it.tag, name)
                os.makedirs(os.path.dirname(p), exist_ok=True)
                with open(p, 'wb') as f:
                    f.write(data)
                fs.append(p)
                cn.append(self.pkg(it) + '.' + os.path.basename(name)[:-5])
            if not fs:
                res[it.tag] = ('no-tests', '')
                continue
            groups[it.tag] = fs
            names[it.tag] = sorted(cn)
        cres = self.compile_groups(groups, tcls, extra_cp=[self.cls])
        torun = []
        for it in items:
            if it.tag not in groups:
                continue
            ok, log = cres[it.tag]
            if not ok:
                res[it.tag] = ('build-fail', log)
            else:
                torun.append(it)

        def one(it):
            d = os.path.join(self.dir, 'trun', it.tag)
            os.makedirs(d, exist_ok=True)
            cp = os.pathsep.join([RT_DIR, self.cls, tcls])
            rc, text, fired = lanes.run_child(['java', '-Xss2m', '-XX:TieredStopAtLevel=1', '-XX:+UseSerialGC', '-cp', cp, 'vrt.TestRunner'] + names[it.tag], d, os.path.join(d, 'test.log'))
            tn = [l.split(' ')[1] for l in text.split('\n') if l.startswith('TEST ')]
            if fired:
                return ('watchdog', text[-500:], tn)
            if rc == 0 and 'DONE' in text and ' FAIL ' not in text and 'NOTESTS' not in text:
                return ('pass', '', tn)
            return ('test-fail', '\n'.join(l for l in text.split('\n') if 'FAIL' in l or 'NOTESTS' in l or 'Exception' in l)[:2000] or text[-1500:], tn)
        with ThreadPoolExecutor(max_workers=jobs) as ex:
            for it, r in zip(torun, ex.map(one, torun)):
                res[it.tag] = r
        return res

"""C01-C07, C15, C17: monitors over executions of the emitted artefacts (codecs, dissector, self-tests)."""
import collections
import copy
import os
import random
import re

from . import check, dslprint, gen, lanes, pipeline, refmodel, tools, wire
from .spec import WIDTH, features
from .checks_meta import POOL_SEED

LANGS5 = tools.CODEC_LANGS


# ------------------------------------------------------------------------------------------------ pools

def wire_pool(ctx, prefixes=None, nrand=10, every=1, extra=()):
    quick = ctx.tier == 'quick'
    mat = gen.matrix_protos()
    if prefixes:
        mat = [p for p in mat if p.tag.startswith(tuple(prefixes))]
    if every > 1:
        # sampling applies to the large regular families (scalars, strings, paddings, MetaData typing); the structural protocols
        # (objects, match tables, length, checksum, identifier shapes, kitchen sink) are few and each is one of a kind
        dense = ('Mn', 'Ms', 'Mf', 'Mp', 'Md', 'Mc', 'Ml')
        keep = [p for p in mat if not p.tag.startswith(dense)]
        for fam in ('Mc', 'Ml'):        # the regular part of these families is sampled, their special cases at the end are kept
            keep += [p for p in mat if p.tag.startswith(fam)][-9:]
        sampled = [p for p in mat if p.tag.startswith(dense)][::every]
        mat = sampled + [p for p in keep if p not in sampled]
    pool = list(mat)
    n = nrand if quick else nrand * 10
    for i in range(n):
        rng = random.Random('%s/%s/w%d' % (ctx.prop, POOL_SEED, i))
        allow = None
        p = gen.random_proto(rng, gen.alpha_tag('W' + ''.join(chr(ord('a') + int(d)) for d in ctx.prop[1:]), i), allow=allow)
        if prefixes and not want_random(p, prefixes):
            continue
        pool.append(p)
    pool += list(extra)
    only = os.environ.get('VERIF_ONLY_TAGS')    # dev-time aid: run a check over the named protocols only (never set by a registered command)
    if only:
        pool = [p for p in pool if p.tag in only.split(',')]
    return [p for p in pool if p.root is not None]


def want_random(p, prefixes):
    f = features(p)
    need = {'Ml': 'k:len', 'Mm': 'k:match', 'Mc': 'k:cksum'}
    return any(need.get(x) in f for x in prefixes if x in need) or not any(x in need for x in prefixes)


def triage_wire(ctx, prop, lang, item, cls, what, replay):
    feats = set(item.feats) | {'lang:' + lang}
    app = [fd for fd in check.applicable(ctx.findings_db, prop, lang, feats) if check.symptom_matches(fd, cls, what)]
    if app:
        ctx.finding_excluded[app[0]['id']] += 1
        ctx.known_finding(app[0]['id'], app[0]['what'])
        check.triage_log(app[0]['id'], prop, lang, item.tag, cls, what)
        return False
    rp = {'dsl': item.text, 'lang': lang, 'symptom': cls}
    rp.update(replay or {})
    ctx.violation((prop, lang, cls, item.tag), '%s/%s %s: %s' % (lang, item.tag, cls, what), rp)
    return True


def msg_json(m):
    def conv(v):
        if isinstance(v, dict):
            return {k: conv(x) for k, x in v.items()}
        if isinstance(v, (list, tuple)):
            return [conv(x) for x in v]
        return v
    return conv(m)


def build_report(ctx, prop, lang, item, out, c07=False):
    """shared handling of lanes that did not produce a runnable driver. returns True when the item ran."""
    if out.build == 'ok':
        return True
    if out.build == 'emitted-fail':
        if c07 or prop in ('C01', 'C02', 'C03', 'C04', 'C05', 'C06'):
            triage_wire(ctx, prop, lang, item, 'emitted-does-not-build', first_error(out.log), {'log': out.log[:3000]})
        else:
            ctx.counters['skipped-emitted-does-not-build:' + lang] += 1
        return False
    if out.build == 'driver-fail':
        if re.search(r'has no field or method|undefined: m\.|no field `|cannot find (type|struct|value|function)|cannot find symbol|no member named|unknown type name|AttributeError|no variant', out.log):
            if prop in ('C01', 'C07'):
                triage_wire(ctx, prop, lang, item, 'declared-name-missing', first_error(out.log), {'log': out.log[:3000]})
            else:
                ctx.counters['skipped-declared-name-missing:' + lang] += 1
        else:
            ctx.inconc('driver for %s/%s does not build (harness fault?): %s' % (lang, item.tag, first_error(out.log)[:200]))
        return False
    return False


def first_error(log):
    lines = [l for l in log.split('\n') if re.search(r'error|Error|undefined|cannot', l)] or [l for l in log.split('\n') if l.strip()]
    s = lines[0] if lines else ''
    return re.sub(r'/tmp/\S*?/(go|rust|java|cpp|py)/', '', s)[:300]


def crash_report(ctx, prop, lang, item, out):
    if out.crash:
        last, rc, tail, fired = out.crash
        if fired:
            ctx.inconc('watchdog: %s driver for %s did not finish' % (lang, item.tag))
            return True
        san = 'sanitizer-report' if ('AddressSanitizer' in tail or 'runtime error:' in tail or 'LeakSanitizer' in tail) else 'process-died'
        triage_wire(ctx, prop, lang, item, san, 'emitted code killed the process during %s (exit %s): %s' % (last, rc, tail[-300:].replace('\n', ' | ')), {'last_case': last, 'tail': tail})
        return True
    return False


def make(ctx, pool, langs, shapes=None):
    shapes = shapes or (gen.SHAPES_QUICK if ctx.tier == 'quick' else gen.SHAPES_THOROUGH)
    items, rej = pipeline.make_items(ctx.vapi, pool, langs, ctx.seed, shapes)
    for p, text, r in rej:
        ctx.counters['protocol-rejected-by-compiler (C12 domain)'] += 1
        # a protocol of the pool is refused: nothing is observed for it here. That is C12's subject (its acceptance lane compiles the
        # same pool), but it must not pass silently in this check either
        ctx.inconc('pool protocol %s is rejected by the compiler (see C12): %s' % (p.tag, str(r.get('diags') or r.get('syn_err') or r.get('died'))[:200]))
    return items


def trace_merge(ctx, lang, out):
    tr = ctx.cov.setdefault('events_by_kind', {}).setdefault(lang, {})
    for k, v in (out.trace or {}).items():
        tr[k] = tr.get(k, 0) + v


# ------------------------------------------------------------------------------------------------ C01 / C02

def c01(ctx):
    ctx.cov['rule'] = ('protocols: feature matrix (every field kind x plain/repeat, every option value, length/checksum/match/MetaData forms) + seed-derived random compositions; '
                       'messages: zero/min/max/high-bit/UTF-8/typical(/long) values per field; for each of the five codec languages the emitted encoder is compiled against the stand-in '
                       'runtime and run, its bytes compared with the reference wire model (first differing byte is attributed to a field by the reference layout). '
                       'distinct = (protocol, language, message shape) triples')
    pool = wire_pool(ctx, nrand=12)
    items = make(ctx, pool, LANGS5)
    per_lang = {}
    for lang in LANGS5:
        B, outs, metas = pipeline.run_lane(lang, items, ctx.scr.dir, enc=True, dec=False)
        st = per_lang.setdefault(lang, collections.Counter())
        for it in items:
            out = outs.get(it.tag)
            if out is None:
                continue
            st['protocols'] += 1
            if not build_report(ctx, 'C01', lang, it, out):
                st['not-built'] += 1
                continue
            trace_merge(ctx, lang, out)
            crash_report(ctx, 'C01', lang, it, out)
            fs, ok = wire.check_encode(it, lang, out, list(range(len(it.msgs))))
            st['encodes-ok'] += ok
            for i in range(len(it.msgs)):
                ctx.evaluated(1, key=(it.tag, lang, it.msgs[i][0]))
            for f in fs:
                triage_wire(ctx, 'C01', lang, it, f.cls, f.detail, {'message': msg_json(it.msgs[f.case][1]) if isinstance(f.case, int) else None, 'case': f.case,
                                                                      'reference_hex': it.ref[f.case][0].hex() if isinstance(f.case, int) else None, 'got': out.enc.get(f.case)})
    ctx.cov['per_language'] = {l: dict(c) for l, c in per_lang.items()}
    it = items[len(items) // 2]
    ctx.sample({'dsl': it.text[:800], 'message': msg_json(it.msgs[0][1]), 'reference_hex': it.ref[0][0].hex()})
    ctx.cov['features_covered'] = len(set().union(*[it.feats for it in items]))
    for lang in LANGS5:
        if not ctx.cov.get('events_by_kind', {}).get(lang):
            ctx.inconc('no trace events observed for ' + lang)
    ctx.assumptions += ['stand-in runtimes implement the codec API names with their obvious meaning (DESIGN 3.4); real third-party crates bytes/byteorder are used for Rust']
    from . import probes
    probes.run_probes(ctx, 'C01')


def c02(ctx):
    ctx.cov['rule'] = ('same protocols/messages as C01; the emitted decoder of each language is fed the REFERENCE bytes of each message followed by a suffix (none, 0xff, 7 bytes, a second message); '
                       'oracle: decoded logical value == message (fixed strings trimmed), unread bytes == suffix length, re-encoding the decoded object reproduces the bytes. '
                       'distinct = (protocol, language, message, suffix)')
    pool = wire_pool(ctx, nrand=12)
    items = make(ctx, pool, LANGS5)
    per_lang = {}
    for lang in LANGS5:
        B, outs, metas = pipeline.run_lane(lang, items, ctx.scr.dir, enc=False, dec=True)
        st = per_lang.setdefault(lang, collections.Counter())
        for it in items:
            out = outs.get(it.tag)
            if out is None:
                continue
            st['protocols'] += 1
            if not build_report(ctx, 'C02', lang, it, out):
                st['not-built'] += 1
                continue
            trace_merge(ctx, lang, out)
            crash_report(ctx, 'C02', lang, it, out)
            fs, ok = wire.check_decode(it, lang, out, metas[it.tag])
            st['decodes-ok'] += ok
            for cid in metas[it.tag]:
                ctx.evaluated(1, key=(it.tag, lang, cid))
            for f in fs:
                i = metas[it.tag][f.case][0] if f.case in metas[it.tag] else None
                triage_wire(ctx, 'C02', lang, it, f.cls, f.detail, {'case': f.case, 'message': msg_json(it.msgs[i][1]) if i is not None else None,
                                                                      'input_hex': (it.ref[i][0] + metas[it.tag][f.case][1]).hex() if i is not None else None, 'got': out.dec.get(f.case)})
    ctx.cov['per_language'] = {l: dict(c) for l, c in per_lang.items()}
    it = items[len(items) // 3]
    ctx.sample({'dsl': it.text[:800], 'message': msg_json(it.msgs[0][1]), 'input_hex': it.ref[0][0].hex() + 'ff', 'expected_unread': 1})
    from . import probes
    probes.run_probes(ctx, 'C02')


# ------------------------------------------------------------------------------------------------ C03

def mask_computed(proto, fields, canon):
    """drop length/checksum members (their value is not caller-defined) from a canon() tree of `fields`."""
    out = []
    for f, (name, val) in zip(fields, canon):
        e = proto.eff(f)
        if f.kind in ('len', 'cksum'):
            continue
        if e.kind == 'ref' and val[0] == 'o':
            val = ('o', mask_computed(proto, proto.packet(f.packet).fields, val[1]))
        elif e.kind == 'inline' and val[0] == 'o':
            val = ('o', mask_computed(proto, e.fields, val[1]))
        elif e.kind == 'match' and val[0] == 'm':
            val = ('m', val[1], mask_computed(proto, proto.packet(val[1]).fields, val[2]))
        elif val[0] == 'l' and e.kind in ('ref', 'inline'):
            fl = proto.packet(f.packet).fields if e.kind == 'ref' else e.fields
            val = ('l', tuple(('o', mask_computed(proto, fl, x[1])) if x[0] == 'o' else x for x in val[1]))
        out.append((name, val))
    return tuple(out)


def c03(ctx):
    ctx.cov['rule'] = ('relational, no reference model: for every protocol and message the five emitted encoders\' byte strings must be pairwise identical, and every language\'s decoder, run on '
                       'every distinct byte string any language produced, must recover the same logical message (and the harness-owned input message on all caller-defined fields). '
                       'distinct = (protocol, message, ordered language pair) cells')
    pool = wire_pool(ctx, nrand=12, every=2 if ctx.tier == 'quick' else 1)
    items = make(ctx, pool, LANGS5)
    enc = {}      # lang -> {tag: LaneOut}
    batches = {}
    usable = {}
    for lang in LANGS5:
        B = pipeline.lane_class(lang)(ctx.scr.dir)
        have = [it for it in items if lang in it.files]
        B.prepare(have)
        batches[lang] = B
        from concurrent.futures import ThreadPoolExecutor
        with ThreadPoolExecutor(max_workers=16) as ex:
            res = list(ex.map(lambda it: (it.tag, B.run(it, list(range(len(it.msgs))), [])), have))
        enc[lang] = dict(res)
    cells = collections.Counter()
    dec_cases = {lang: {} for lang in LANGS5}
    deviant_bytes = set()       # (protocol, case id) of byte strings only a minority of the encoders produced
    for it in items:
        langs_ok = []
        for lang in LANGS5:
            out = enc[lang].get(it.tag)
            if out is None:
                continue
            if out.build != 'ok':
                # a language that cannot take part is a drift from the others only if the others can: counted, reported by C07
                ctx.counters['not-participating:' + lang] += 1
                feats = set(it.feats)
                if not check.applicable(ctx.findings_db, 'C03', lang, feats) and out.build == 'emitted-fail':
                    triage_wire(ctx, 'C03', lang, it, 'emitted-does-not-build', first_error(out.log), {'log': out.log[:2000]})
                elif out.build == 'emitted-fail':
                    triage_wire(ctx, 'C03', lang, it, 'emitted-does-not-build', first_error(out.log), {'log': out.log[:2000]})
                continue
            crash_report(ctx, 'C03', lang, it, out)
            langs_ok.append(lang)
        for i in range(len(it.msgs)):
            outs = {}
            for lang in langs_ok:
                r = enc[lang][it.tag].enc.get(i)
                outs[lang] = r if isinstance(r, str) else ('ERR', str(r))
            groups = collections.defaultdict(list)
            for lang, r in outs.items():
                groups[r if isinstance(r, str) else 'ERR'].append(lang)
            for a in langs_ok:
                for b in langs_ok:
                    if a != b:
                        cells[(a, b)] += 1
                        ctx.evaluated(1, key=(it.tag, i, a, b))
            if len(groups) > 1:
                major = max(groups.values(), key=len)
                for r, ls in groups.items():
                    if ls is major:
                        continue
                    for lang in ls:
                        other = major[0]
                        what = 'encoder output differs from %s: %s vs %s' % ('/'.join(major), (r[:60] if r != 'ERR' else str(outs[lang])[:80]), str(outs[other])[:60])
                        if isinstance(outs[lang], str) and isinstance(outs[other], str):
                            a, b = bytes.fromhex(outs[lang]), bytes.fromhex(outs[other])
                            what += ' (first differing byte %d)' % wire.first_diff(a, b)
                        triage_wire(ctx, 'C03', lang, it, 'encoders-disagree' if r != 'ERR' else 'encoder-fails-alone', what,
                                    {'message': msg_json(it.msgs[i][1]), 'outputs': {k: (v if isinstance(v, str) else str(v)) for k, v in outs.items()}})
            # decode phase inputs: every distinct byte string produced
            majority = max(groups.values(), key=len) if groups else []
            for r in groups:
                if r != 'ERR':
                    if groups[r] is not majority:
                        deviant_bytes.add((it.tag, '%d_%s' % (i, groups[r][0])))
                    for lang in langs_ok:
                        dec_cases[lang].setdefault(it.tag, []).append(('%d_%s' % (i, groups[r][0]), bytes.fromhex(r)))
    # phase 2: cross decoding
    for lang in LANGS5:
        B = batches[lang]
        todo = [it for it in items if it.tag in dec_cases[lang]]
        from concurrent.futures import ThreadPoolExecutor
        with ThreadPoolExecutor(max_workers=16) as ex:
            res = dict(ex.map(lambda it: (it.tag, B.run(it, [], dec_cases[lang][it.tag])), todo))
        dec_cases[lang] = (dec_cases[lang], res)
    for it in items:
        byid = collections.defaultdict(dict)
        for lang in LANGS5:
            cases, res = dec_cases[lang]
            out = res.get(it.tag)
            if out is None or out.build != 'ok':
                continue
            crash_report(ctx, 'C03', lang, it, out)
            for cid, _ in cases.get(it.tag, []):
                byid[cid][lang] = out.dec.get(cid)
        for cid, per in byid.items():
            i = int(cid.split('_')[0])
            producer = cid.split('_')[1]
            want = mask_computed(it.proto, it.proto.root.fields, refmodel.canon(it.proto, it.proto.root.fields, it.msgs[i][1]))
            canons = {}
            for lang, r in per.items():
                if r is None:
                    continue
                if r[0] == 'ERR':
                    canons[lang] = ('ERR', r[1])
                    continue
                try:
                    canons[lang] = ('OK', wire.decoded_canon(it, r[1]), r[0])
                except Exception as e:
                    canons[lang] = ('ERR', 'unparsable dump %r' % (e,))
            groups = collections.defaultdict(list)
            for lang, c in canons.items():
                groups[c[:2] if c[0] == 'OK' else ('ERR',)].append(lang)
            major = max(groups.values(), key=len) if groups else []
            # bytes only a minority of the encoders produced are already reported against their producer (encoders-disagree); what
            # the other languages' decoders make of them is a consequence of that, and is filed under the producer as well
            deviant = (it.tag, cid) in deviant_bytes
            for declang, c in canons.items():
                lang = producer if deviant else declang
                ctx.evaluated(1, key=(it.tag, cid, declang, 'dec'))
                if c[0] == 'ERR':
                    triage_wire(ctx, 'C03', lang, it, 'decoder-rejects-peer-bytes', '%s decoder fails on bytes produced by %s%s: %s' % (declang, producer, ' (deviant bytes)' if deviant else '', c[1][:200]), {'case': cid, 'message': msg_json(it.msgs[i][1])})
                    continue
                if declang not in major and major and canons[major[0]][0] == 'OK':
                    d = wire.canon_diff(c[1], canons[major[0]][1])
                    triage_wire(ctx, 'C03', declang, it, 'decoders-disagree', '%s decodes %s\'s bytes differently from %s: %s' % (declang, producer, '/'.join(major), d), {'case': cid, 'message': msg_json(it.msgs[i][1])})
                d = wire.canon_diff(mask_computed(it.proto, it.proto.root.fields, c[1]), want)
                if d:
                    triage_wire(ctx, 'C03', lang, it, 'peer-bytes-decode-to-other-message', '%s decoding %s\'s bytes%s does not recover the input message: %s' % (declang, producer, ' (deviant bytes)' if deviant else '', d), {'case': cid, 'message': msg_json(it.msgs[i][1])})
    ctx.cov['matrix_cells'] = {'%s->%s' % k: v for k, v in sorted(cells.items())}
    it = items[0]
    ctx.sample({'dsl': it.text[:600], 'message': msg_json(it.msgs[0][1]), 'bytes_by_language': {l: enc[l][it.tag].enc.get(0) for l in LANGS5 if it.tag in enc[l]}})
    from . import probes
    probes.run_probes(ctx, 'C03')


# ------------------------------------------------------------------------------------------------ C04

def len_items(ctx, langs):
    pool = wire_pool(ctx, prefixes=['Ml', 'Mc', 'Mr'], nrand=40)
    pool = [p for p in pool if 'k:len' in features(p)]
    return make(ctx, pool, langs)


def c04(ctx):
    ctx.cov['rule'] = ('root packets with a length-of field: each unsigned width x inline/prefixed spelling x match/object target x byte order x 0-1 fields between length and target, payload alternatives '
                       'including the empty packet and payloads > 255 bytes; caller-supplied length values are deliberately wrong (0, 1, max, random). oracle: the length field\'s bytes at its '
                       'reference offset == byte length of the target\'s encoding in the declared width and configured order; decoders return the wire value; encoders do not abort. '
                       'distinct = (protocol, language, message)')
    items = len_items(ctx, LANGS5)
    for lang in LANGS5:
        B, outs, metas = pipeline.run_lane(lang, items, ctx.scr.dir, enc=True, dec=True)
        for it in items:
            out = outs.get(it.tag)
            if out is None or not build_report(ctx, 'C04', lang, it, out):
                continue
            trace_merge(ctx, lang, out)
            crash_report(ctx, 'C04', lang, it, out)
            for i in range(len(it.msgs)):
                refb, lay, dec, _ = it.ref[i]
                lens = [e for e in lay.items if e['fkind'].startswith('len:')]
                ctx.evaluated(1, key=(it.tag, lang, i))
                got = out.enc.get(i)
                rep = {'message': msg_json(it.msgs[i][1]), 'reference_hex': refb.hex(), 'got': got if isinstance(got, str) else str(got), 'patches': out.patches.get(i)}
                if got is None:
                    continue
                if isinstance(got, tuple):
                    triage_wire(ctx, 'C04', lang, it, 'encode-error', 'encoder fails on a message with a length field: %s' % got[1][:200], rep)
                    continue
                gb = bytes.fromhex(got)
                for e in lens:
                    a = gb[e['off']:e['off'] + e['len']]
                    b = refb[e['off']:e['off'] + e['len']]
                    if a != b:
                        triage_wire(ctx, 'C04', lang, it, 'length-field-wrong', '%s: wire bytes %s, expected %s (= %d in %s, %s)' % (
                            e['path'], a.hex(), b.hex(), e['value'], e['fkind'], 'LE' if it.proto.cfg()['le'] else 'BE'), rep)
                # decoders return the wire value
                r = out.dec.get('%dn' % i)
                if r is not None and r[0] != 'ERR':
                    try:
                        v = refmodel.parse_dump(r[1])
                        for e in lens:
                            name = e['fname']
                            mask = (1 << (8 * e['len'])) - 1
                            if isinstance(v, dict) and (v.get(name, 0) or 0) & mask != e['value'] & mask:
                                triage_wire(ctx, 'C04', lang, it, 'decoded-length-wrong', '%s decoded as %s, wire value %d' % (e['path'], v.get(name), e['value']), rep)
                    except Exception:
                        pass
                elif r is not None:
                    triage_wire(ctx, 'C04', lang, it, 'decode-error', 'decoder fails on a message with a length field: %s' % r[1][:200], rep)
        # decoders return the WIRE value: the same messages with the length field's bytes set to another value (true length + 1, and 0);
        # no decoder uses the field to delimit anything, so everything else must decode as before and the field must come back as sent.
        # a decoder that rejects such a message is counted, not reported.
        alt_cases = {}
        for it in items:
            out = outs.get(it.tag)
            if out is None or out.build != 'ok':
                continue
            cases = []
            for i in range(min(2, len(it.msgs))):
                refb, lay, dec, _ = it.ref[i]
                lens = [e for e in lay.items if e['fkind'].startswith('len:')]
                if len(lens) != 1:
                    continue
                e = lens[0]
                le = it.proto.cfg()['le']
                for tagc, val in (('p', (e['value'] + 1) % (1 << (8 * e['len']))), ('z', 0)):
                    if val == e['value']:
                        continue
                    b2 = bytearray(refb)
                    b2[e['off']:e['off'] + e['len']] = val.to_bytes(e['len'], 'little' if le else 'big')
                    cases.append(('%dL%s' % (i, tagc), bytes(b2), e, val))
            if cases:
                alt_cases[it.tag] = cases
        for it in items:
            if it.tag not in alt_cases:
                continue
            o3 = B.run(it, [], [(cid, data) for cid, data, _, _ in alt_cases[it.tag]])
            if o3.crash:
                continue
            for cid, data, e, val in alt_cases[it.tag]:
                r = o3.dec.get(cid)
                if r is None:
                    continue
                ctx.evaluated(1, key=(it.tag, lang, cid, 'altered-length'))
                if r[0] == 'ERR':
                    ctx.counters['altered-length-rejected-by-decoder:' + lang] += 1
                    continue
                ctx.counters['altered-length-decodes'] += 1
                try:
                    v = refmodel.parse_dump(r[1])
                except Exception:
                    continue
                mask = (1 << (8 * e['len'])) - 1
                if isinstance(v, dict) and (v.get(e['fname'], 0) or 0) & mask != val & mask:
                    triage_wire(ctx, 'C04', lang, it, 'decoded-length-wrong', '%s: the wire holds %d (the target really occupies %d bytes), the decoder returns %s' % (e['path'], val, e['value'], v.get(e['fname'])),
                                {'input_hex': data.hex(), 'wire_value': val, 'true_length': e['value'], 'got': r[1][:400]})
        # second pass: the encoder appends to a buffer that is in use (two copies of message 0 written, the first one consumed by the
        # emitted decoder, then message i appended); the readable bytes must be message 0 followed by message i, length field included.
        # protocols with a checksum field are left out (what "the bytes that precede it in the buffer" means there is a C06 question);
        # Rust is left out (its decoder is a constructor over another buffer type)
        if lang != 'rust':
            for it in items:
                out = outs.get(it.tag)
                if out is None or out.build != 'ok' or 'k:cksum' in it.feats or len(it.msgs) < 2:
                    continue
                ids = [i for i in range(len(it.msgs)) if len(it.ref[i][0]) < 4096][:4]
                o2 = B.run(it, [('A', i) for i in ids], [])
                if o2.crash:
                    continue
                for i in ids:
                    got = o2.appended.get(i)
                    if got is None or (isinstance(got, tuple) and got[0] == 'SKIP'):
                        continue
                    ctx.evaluated(1, key=(it.tag, lang, i, 'append'))
                    ctx.counters['append-to-used-buffer-encodes'] += 1
                    want = it.ref[0][0] + it.ref[i][0]
                    rep = {'message': msg_json(it.msgs[i][1]), 'mode': 'encode m0 twice, decode one, encode this message into the same buffer', 'expected_hex': want.hex(), 'got': got if isinstance(got, str) else str(got)}
                    if isinstance(got, tuple):
                        triage_wire(ctx, 'C04', lang, it, 'encode-error', 'encoding into a buffer in use fails: %s' % got[1][:200], rep)
                        continue
                    gb = bytes.fromhex(got)
                    if gb != want:
                        d = wire.first_diff(gb, want)
                        k = len(it.ref[0][0])
                        where = ('the first message (already in the buffer) at offset %d' % d) if d < k else it.ref[i][1].locate(d - k)
                        triage_wire(ctx, 'C04', lang, it, 'length-field-wrong' if ('(' in where and 'len' in where) or d < k else 'wrong-bytes', 'appending to a buffer in use: first differing byte in %s' % where, rep)
    it = items[0]
    ctx.sample({'dsl': it.text[:700], 'message': msg_json(it.msgs[0][1]), 'reference_hex': it.ref[0][0].hex(),
                'length_fields': [(e['path'], e['off'], e['len'], e['value']) for e in it.ref[0][1].items if e['fkind'].startswith('len:')]})
    from . import probes
    probes.run_probes(ctx, 'C04')


# ------------------------------------------------------------------------------------------------ C05

def unmapped_cases(item):
    """reference bytes whose key value is absent from the match table (payload bytes of the first alternative)."""
    out = []
    root = item.proto.root
    mfs = [f for f in root.fields if f.kind == 'match']
    if not mfs or not item.msgs:
        return out
    mf = mfs[0]
    keyf = next(f for f in root.fields if f.name == mf.key)
    ke = item.proto.eff(keyf)
    used = [k for ks, _ in mf.pairs for k in ks]
    cands = []
    if ke.kind == 'num':
        w = WIDTH[ke.ntype]
        hi = (1 << (8 * w - 1)) - 1 if ke.ntype.startswith('i') else (1 << (8 * w)) - 1
        for c in (0, hi, hi - 1, 77, 200, max(k for k in used if isinstance(k, int)) + 1 if used and isinstance(used[0], int) else 5):
            if c not in used and 0 <= c <= hi:
                cands.append(c)
    else:
        for c in ('', 'zz', 'A ', 'a', 'ZZZZ'):
            if c not in used and c.strip(' ') not in used and (ke.kind != 'fix' or len(c) <= ke.n):
                cands.append(c)
    for n, c in enumerate(cands[:3]):
        m = copy.deepcopy(item.msgs[0][1])
        m[mf.key] = c
        try:
            b, lay, dec = refmodel.Encoder(item.proto).encode_root(m)
        except Exception:
            continue
        out.append(('u%d' % n, b, c))
    return out


def c05(ctx):
    ctx.cov['rule'] = ('protocols with match fields: tables of 1..7+ alternatives, integer keys of every width (boundary keys 255, 65535, 2^31, 2^40), string keys (dynamic and fixed), key lists (also > 5 items), '
                       'several keys -> one packet, match in a nested packet, two match fields; every key of every table is sent once; oracle: dynamic type of the decoded payload == table(key) in every language; '
                       'for >= 3 keys outside the table decode must report failure (error / None / exception) - a value, a skipped payload, a panic or a dead process is a violation. '
                       'distinct = (protocol, language, key)')
    pool = wire_pool(ctx, prefixes=['Mm', 'Ml', 'Mq', 'Mr'], nrand=40)
    pool = [p for p in pool if 'root-match' in features(p) or 'sub-match' in features(p)]
    items = make(ctx, pool, LANGS5)
    for lang in LANGS5:
        B = pipeline.lane_class(lang)(ctx.scr.dir)
        have = [it for it in items if lang in it.files]
        B.prepare(have)
        for it in have:
            cases, meta = pipeline.decode_cases(it, suffixes=(('n', b''),), second_message=False)
            um = unmapped_cases(it)
            # reuse cases: decode message i, then message j (another alternative) INTO THE SAME OBJECT; then an unmapped key into a used object
            reuse = []
            rmeta = {}
            types = [tuple(root_types(refmodel.canon(it.proto, it.proto.root.fields, it.ref[i][2]))) for i in range(len(it.msgs))]
            for i in range(len(it.msgs)):
                for j in range(len(it.msgs)):
                    if types[i] != types[j] and len(reuse) < 4:
                        cid = 'r%d_%d' % (i, j)
                        reuse.append((cid, it.ref[i][0], it.ref[j][0]))
                        rmeta[cid] = j
            um_reuse = [u for u in um if u[2] != ''][:1]      # an empty string key need not overwrite the previous key of a used object
            for cid, b, key in um_reuse:
                if it.msgs:
                    reuse.append(('ru' + cid, it.ref[0][0], b))
            out = B.run(it, list(range(len(it.msgs))), cases + [(cid, b) for cid, b, _ in um] + reuse)
            if not build_report(ctx, 'C05', lang, it, out):
                continue
            trace_merge(ctx, lang, out)
            crash_report(ctx, 'C05', lang, it, out)
            for cid, (i, suf) in meta.items():
                want = refmodel.canon(it.proto, it.proto.root.fields, it.ref[i][2])
                r = out.dec.get(cid)
                keyinfo = [(f.name, it.msgs[i][1].get(f.key), it.msgs[i][1][f.name][0]) for f in it.proto.root.fields if f.kind == 'match']
                ctx.evaluated(1, key=(it.tag, lang, str(keyinfo)))
                rep = {'message': msg_json(it.msgs[i][1]), 'input_hex': it.ref[i][0].hex(), 'match': keyinfo, 'got': r}
                if r is None:
                    continue
                if r[0] == 'ERR':
                    triage_wire(ctx, 'C05', lang, it, 'mapped-key-rejected', 'decode fails for a key that is in the table %s: %s' % (keyinfo, r[1][:200]), rep)
                    continue
                try:
                    got = wire.decoded_canon(it, r[1])
                except Exception as e:
                    triage_wire(ctx, 'C05', lang, it, 'dump-unparsable', repr(e), rep)
                    continue
                tw = dyn_types(want)
                tg = dyn_types(got)
                if tw != tg:
                    triage_wire(ctx, 'C05', lang, it, 'wrong-packet-selected', 'payload types %s, the table says %s (keys %s)' % (tg, tw, keyinfo), rep)
                # the encoder writes the payload the caller supplied
                e = out.enc.get(i)
                if isinstance(e, str) and bytes.fromhex(e) != it.ref[i][0]:
                    d = wire.first_diff(bytes.fromhex(e), it.ref[i][0])
                    where = it.ref[i][1].locate(d)
                    if '<' in where.split('(')[0]:
                        triage_wire(ctx, 'C05', lang, it, 'payload-bytes-wrong', 'encoder output differs inside the match payload: %s' % where, rep)
            for cid, j in rmeta.items():
                r = out.dec.get(cid)
                ctx.evaluated(1, key=(it.tag, lang, 'reuse', cid))
                rep = {'first_message': msg_json(it.msgs[int(cid[1:].split('_')[0])][1]), 'second_message': msg_json(it.msgs[j][1]), 'got': r}
                if r is None:
                    continue
                if r[0] == 'ERR':
                    triage_wire(ctx, 'C05', lang, it, 'mapped-key-rejected', 'decoding a second message into a used object fails: %s' % r[1][:200], rep)
                    continue
                try:
                    tg = root_types(wire.decoded_canon(it, r[1]))
                except Exception:
                    continue
                if tuple(tg) != types[j]:
                    triage_wire(ctx, 'C05', lang, it, 'wrong-packet-selected', 'decoding into an object that already holds a payload keeps/chooses %s, the table says %s for the new key' % (tg, list(types[j])), rep)
            for cid, b, key in um_reuse:
                r = out.dec.get('ru' + cid)
                if r is not None and r[0] != 'ERR' and it.msgs:
                    ctx.evaluated(1, key=(it.tag, lang, 'reuse-unmapped'))
                    triage_wire(ctx, 'C05', lang, it, 'unmapped-key-accepted', 'key %r is not in the table but decoding it into a used object returned %s' % (key, r[1][:120]), {'unmapped_key': key, 'got': r})
            for cid, b, key in um:
                r = out.dec.get(cid)
                ctx.evaluated(1, key=(it.tag, lang, 'unmapped', str(key)))
                rep = {'unmapped_key': key, 'input_hex': b.hex(), 'got': r}
                if r is None:
                    triage_wire(ctx, 'C05', lang, it, 'unmapped-key-crash', 'no result for unmapped key %r (process died?)' % (key,), rep)
                elif r[0] != 'ERR':
                    triage_wire(ctx, 'C05', lang, it, 'unmapped-key-accepted', 'key %r is not in the table but decode returned %s' % (key, r[1][:120]), rep)
                elif 'PANIC' in r[1] or 'NullPointer' in r[1] or 'StackOverflow' in r[1] or 'AttributeError' in r[1] or 'TypeError' in r[1]:
                    triage_wire(ctx, 'C05', lang, it, 'unmapped-key-crash', 'key %r: decode fails with a fault instead of a reported error: %s' % (key, r[1][:200]), rep)
    it = items[0]
    ctx.sample({'dsl': it.text[:700], 'keys_sent': [m[1].get(next(f.key for f in it.proto.root.fields if f.kind == 'match')) for m in it.msgs] if any(f.kind == 'match' for f in it.proto.root.fields) else None,
                'unmapped_keys': [k for _, _, k in unmapped_cases(it)]})
    from . import probes
    probes.run_probes(ctx, 'C05')


def root_types(canon):
    """dynamic payload types of the ROOT packet's own match fields (list members are left out: decoding into a used
    object may legitimately append to lists)."""
    return [val[1] for name, val in canon if isinstance(val, tuple) and len(val) == 3 and val[0] == 'm']


def dyn_types(canon):
    out = []

    def rec(c):
        if isinstance(c, tuple):
            if len(c) == 3 and c[0] == 'm':
                out.append(c[1])
                rec(c[2])
            else:
                for x in c:
                    rec(x)
    rec(canon)
    return out


# ------------------------------------------------------------------------------------------------ C06

def c06(ctx):
    ctx.cov['rule'] = ('packets with a calculated-from field: every integer width x inline/prefixed spelling x both byte orders x algorithm registered (SUM8/CRC16/CRC32/CRC64 for the matching unsigned width) '
                       'or not registered x position (last, middle, inside a nested packet, after a back-patched length); the checksum stand-in records the exact bytes it is handed. oracle: those bytes == '
                       'reference prefix of the message; field bytes == algo(prefix) in declared width/order; unregistered -> caller value unchanged; decoders read the wire value back. '
                       'distinct = (protocol, language, message)')
    pool = wire_pool(ctx, prefixes=['Mc', 'Mr'], nrand=60)
    pool = [p for p in pool if 'k:cksum' in features(p)]
    items = make(ctx, pool, LANGS5)
    for lang in LANGS5:
        B, outs, metas = pipeline.run_lane(lang, items, ctx.scr.dir, enc=True, dec=True)
        for it in items:
            out = outs.get(it.tag)
            if out is None or not build_report(ctx, 'C06', lang, it, out):
                continue
            trace_merge(ctx, lang, out)
            crash_report(ctx, 'C06', lang, it, out)
            for i in range(len(it.msgs)):
                refb, lay, dec, ckin = it.ref[i]
                cks = [e for e in lay.items if e['fkind'].startswith('cksum:')]
                ctx.evaluated(1, key=(it.tag, lang, i))
                got = out.enc.get(i)
                rep = {'message': msg_json(it.msgs[i][1]), 'reference_hex': refb.hex(), 'got': got if isinstance(got, str) else str(got),
                       'checksum_inputs_seen': out.ckin.get(i), 'checksum_inputs_expected': [(p, b.hex()) for p, b in ckin]}
                if got is None:
                    continue
                if isinstance(got, tuple):
                    triage_wire(ctx, 'C06', lang, it, 'encode-error', got[1][:200], rep)
                    continue
                seen = [bytes.fromhex(h) for _, h in out.ckin.get(i, [])]
                want_in = [b for _, b in ckin]
                if seen != want_in:
                    triage_wire(ctx, 'C06', lang, it, 'checksum-input-wrong', 'bytes handed to the checksum service: %s, expected the message prefix %s' % (
                        [s.hex()[:40] for s in seen], [s.hex()[:40] for s in want_in]), rep)
                gb = bytes.fromhex(got)
                for e in cks:
                    a, b = gb[e['off']:e['off'] + e['len']], refb[e['off']:e['off'] + e['len']]
                    if a != b:
                        triage_wire(ctx, 'C06', lang, it, 'checksum-field-wrong', '%s: wire bytes %s, expected %s (%s)' % (e['path'], a.hex(), b.hex(), e['fkind']), rep)
                r = out.dec.get('%dn' % i)
                if r is not None and r[0] != 'ERR':
                    try:
                        g = wire.decoded_canon(it, r[1])
                        w = refmodel.canon(it.proto, it.proto.root.fields, dec)
                        d = wire.canon_diff(g, w)
                        if d and any(e['fname'] in d for e in cks):
                            triage_wire(ctx, 'C06', lang, it, 'decoded-checksum-wrong', d, rep)
                    except Exception:
                        pass
                elif r is not None:
                    triage_wire(ctx, 'C06', lang, it, 'decode-error', r[1][:200], rep)
        # second pass, a fresh process per protocol: the registry is emptied and restored BETWEEN encodes ("when no algorithm is
        # registered under that name the caller's value is written unchanged" is about the registry at the time of the encode).
        # even protocols start with the emptied registry (U 0, then E 0, E 1), odd ones end with it (E 0, U 1, E 0)
        for n, it in enumerate(items):
            out = outs.get(it.tag)
            if out is None or out.build != 'ok' or len(it.msgs) < 2:
                continue
            plan = [('U', 0), 0, 1] if n % 2 == 0 else [0, ('U', 1), 0]
            o2 = B.run(it, plan, [])
            if o2.crash:
                continue        # crashes of the first pass are reported above; nothing is concluded from a dead second pass
            for i in (0, 1):
                refb, lay, dec, ckin = it.ref[i]
                cks = [e for e in lay.items if e['fkind'].startswith('cksum:')]
                try:
                    refu = refmodel.Encoder(it.proto, registered=()).encode_root(it.msgs[i][1])[0]
                except refmodel.LenOverflow:
                    continue
                tg = o2.toggled.get(i, {})
                for tag, want, state in (('ENCU', refu, 'registry emptied'), ('ENCG', refb, 'registry restored'), ('ENC', refb, 'after the toggle' if n % 2 else 'after a first encode with the emptied registry')):
                    got = o2.enc.get(i) if tag == 'ENC' else tg.get(tag)
                    if got is None:
                        continue
                    ctx.evaluated(1, key=(it.tag, lang, i, tag, 'toggle'))
                    ctx.counters['registry-toggle-encodes'] += 1
                    rep = {'message': msg_json(it.msgs[i][1]), 'plan': str(plan), 'state': state, 'expected_hex': want.hex(), 'got': got if isinstance(got, str) else str(got)}
                    if isinstance(got, tuple):
                        triage_wire(ctx, 'C06', lang, it, 'encode-error', '%s: %s' % (state, got[1][:200]), rep)
                        continue
                    gb = bytes.fromhex(got)
                    for e in cks:
                        a, b = gb[e['off']:e['off'] + e['len']], want[e['off']:e['off'] + e['len']]
                        if a != b:
                            triage_wire(ctx, 'C06', lang, it, 'checksum-field-wrong', '%s (%s): wire bytes %s, expected %s (%s)' % (e['path'], state, a.hex(), b.hex(), e['fkind']), rep)
    it = items[0]
    ctx.sample({'dsl': it.text[:600], 'message': msg_json(it.msgs[0][1]), 'checksum_inputs_expected': [(p, b.hex()) for p, b in it.ref[0][3]], 'reference_hex': it.ref[0][0].hex()})
    from . import probes
    probes.run_probes(ctx, 'C06')


# ------------------------------------------------------------------------------------------------ C07

MARKERS = [r'unsupport', r'unknow', r'not supported', r'\bTODO\b', r'error generating', r'unkown']


def ident_protos(seed):
    """identifier-shape lane: lowerCamel, snake_case, ALLCAPS, digit-bearing names; field name != type name."""
    out = []
    shapes = [('lowerCamel', 'orderEntry', 'clOrdId', 'subOrder'), ('snake_case', 'order_entry', 'cl_ord_id', 'sub_order'), ('ALLCAPS', 'ORDERENTRY', 'CLORDID', 'SUBORDER'),
              ('digits', 'Order2Entry', 'Leg1Qty', 'Sub3'), ('Acronym', 'FIXOrder', 'ClOrdID', 'HTTPSub')]
    for n, (nm, pk, fl, sub) in enumerate(shapes):
        tag = gen.alpha_tag('Id', n)
        fields = [gen.num(fl, 'u32'), gen.dyn('Text' + fl[:1].upper()), Field_ref(sub, 'item' + str(n) if nm == 'digits' else ('Item' if nm != 'snake_case' else 'an_item')),
                  gen.num('Kind', 'u8'), Field_match('Body', 'Kind', [([1], sub)])]
        from .spec import Packet, Proto
        out.append(Proto([Packet(pk, fields, root=True), Packet(sub, [gen.num('Val' + fl[-1:].upper(), 'u16'), gen.fix('Code', 3)])], gen.base_options(tag), [], tag=tag))
    return out


def Field_ref(packet, name):
    from .spec import Field
    return Field('ref', name, packet=packet, named=True)


def Field_match(name, key, pairs):
    from .spec import Field
    return Field('match', name, key=key, pairs=pairs)


def c07(ctx):
    ctx.cov['rule'] = ('protocols: feature matrix + random compositions + identifier-shape lane (lowerCamel, snake_case, ALLCAPS, digit-bearing, acronym names; field name != type name) + option-omitted lane '
                       '(no GoPackage/JavaPackage); for all six targets every emitted file is handed to its tool-chain against the stand-in API (go build, rustc, javac, py_compile + import, clang++ -fsyntax-only, '
                       'luaL_loadfile + running the chunk against the mock), a driver that names every declared packet type and field member is built, and every emitted file is scanned for placeholder text. '
                       'distinct = (protocol, target) pairs')
    quick = ctx.tier == 'quick'
    pool = wire_pool(ctx, nrand=12, every=2 if quick else 1)
    idp = ident_protos(ctx.seed)
    omitted = []
    for p in gen.matrix_protos()[5:40:12]:
        q = copy.deepcopy(p)
        q.tag = 'No' + p.tag[2:]
        q.options = {k: v for k, v in q.options.items() if k not in ('GoPackage', 'GoModule', 'JavaPackage')}
        for pk in q.packets:
            pk.name = pk.name.replace(p.tag, q.tag)
        omitted.append(q)
    allp = pool + idp
    items = make(ctx, allp, tools.LANGS)
    for it in items:
        if it.tag.startswith('Id'):
            it.feats = set(it.feats) | {'ident-lane'}
    # option-omitted lane: compile only + go/java build without package names
    om_items, _ = pipeline.make_items(ctx.vapi, omitted, ['go', 'java'], ctx.seed, gen.SHAPES_QUICK[:1])
    # marker scan + generator failures
    for it in items:
        for lang in tools.LANGS:
            ctx.evaluated(1, key=(it.tag, lang))
            if lang in it.gen_panics:
                triage_wire(ctx, 'C07', lang, it, 'generator-panic', 'generator panics on an accepted protocol at %s: %s' % (it.gen_panics[lang]['site'], it.gen_panics[lang]['value']), {'panic': it.gen_panics[lang]})
                continue
            if lang in it.gen_errors:
                # a construct the target cannot express reported as a diagnostic: allowed by the property
                ctx.counters['generator-diagnostic:' + lang] += 1
                continue
            for name, data in it.files.get(lang, {}).items():
                text = data.decode('utf-8', 'replace')
                for ln, line in enumerate(text.split('\n'), 1):
                    hit = None
                    for mk in MARKERS:
                        if re.search(mk, line, re.I):
                            hit = mk
                    if lang != 'lua' and re.match(r'^\s*--', line):
                        hit = 'line starting with --'
                    if hit and not re.search(r'"[^"]*(Unsupported|unknown)[^"]*"', line):
                        triage_wire(ctx, 'C07', lang, it, 'placeholder-text', '%s:%d contains %r: %s' % (name, ln, hit, line.strip()[:120]), {'file': name, 'line': ln})
                        break
    # every declared packet has its type - also a packet nothing refers to (the drivers only reach what the root reaches)
    decl = {'go': r'\btype\s+%s\s+struct\b', 'rust': r'\bpub\s+struct\s+%s\b', 'java': r'\bclass\s+%s\b', 'python': r'^class\s+%s\b', 'cpp': r'\bstruct\s+%s\b'}
    for it in items:
        if it.tag.startswith('Id'):
            continue
        for lang in LANGS5:
            if lang not in it.files or lang in it.gen_errors or lang in it.gen_panics:
                continue
            blob = '\n'.join(d.decode('utf-8', 'replace') for n, d in sorted(it.files[lang].items()) if 'test' not in n.lower())
            for pk in it.proto.packets:
                ctx.counters['declared-type-lookups'] += 1
                nm = pk.name if lang in ('go', 'java', 'cpp') else it.camel(pk.name)
                if not re.search(decl[lang] % re.escape(nm), blob, re.M):
                    triage_wire(ctx, 'C07', lang, it, 'declared-name-missing', 'no %s type for the declared packet %s in the emitted files %s' % (lang, pk.name, sorted(it.files[lang])[:6]), {'packet': pk.name})
    # tool-chains
    for lang in LANGS5:
        B = pipeline.lane_class(lang)(ctx.scr.dir)
        have = [it for it in items if lang in it.files and not it.tag.startswith('Id')]
        B.prepare(have)
        # identifier-shape lane: only the emitted files are judged (the driver's own naming would be a guess there)
        idl = [it for it in items if lang in it.files and it.tag.startswith('Id')]
        B2 = pipeline.lane_class(lang)(ctx.scr.dir + '/ident')
        B2.prepare(idl, want_drivers=False) if lang != 'python' else B2.prepare(idl)
        for bb, lst in ((B, have), (B2, idl)):
            for it in lst:
                st, log = bb.status.get(it.tag, ('not-run', ''))
                if st == 'ok':
                    continue
                out = lanes.LaneOut()
                out.build, out.log = st, log
                build_report(ctx, 'C07', lang, it, out, c07=True)
    from . import lang_lua
    for it in items:
        if 'lua' not in it.files:
            continue
        out = lang_lua.run(it, ctx.scr.dir, [])
        if out.load != 'ok':
            triage_wire(ctx, 'C07', 'lua', it, 'emitted-does-not-build', 'lua: %s' % str(out.load)[:300], {'log': out.raw[:2000]})
    # option-omitted lane
    for lang in ('go', 'java'):
        if not om_items:
            break
        for it in om_items:
            it.tag2 = it.tag
        B = pipeline.lane_class(lang)(ctx.scr.dir + '/omitted')
        B.prepare(om_items, want_drivers=False)
        for it in om_items:
            ctx.evaluated(1, key=(it.tag, lang, 'omitted'))
            it.feats = set(it.feats) | {'package-option-omitted'}
            st, log = B.status.get(it.tag, ('not-run', ''))
            if st == 'emitted-fail':
                triage_wire(ctx, 'C07', lang, it, 'emitted-does-not-build', first_error(log), {'log': log[:2000]})
    it = items[1]
    ctx.sample({'dsl': it.text[:500], 'files': {l: sorted(it.files.get(l, {}).keys()) for l in tools.LANGS}})
    ctx.cov['identifier_shape_protocols'] = len(idp)
    from . import probes
    probes.run_probes(ctx, 'C07')


# ------------------------------------------------------------------------------------------------ C17

def c17(ctx):
    ctx.cov['rule'] = ('protocols: feature matrix + random compositions; for each codec target the emitted self-tests are built with the target\'s own tool-chain and run: go test (real testify), rustc --test, '
                       'javac + reflective JUnit4 stand-in, python unittest, clang++ ASan/UBSan + gtest stand-in; oracle: they build, every test passes, and every declared packet has a test. '
                       'distinct = (protocol, language)')
    quick = ctx.tier == 'quick'
    pool = wire_pool(ctx, nrand=10, every=2 if quick else 1)
    items = make(ctx, pool, LANGS5)
    per = {}
    for lang in LANGS5:
        B = pipeline.lane_class(lang)(ctx.scr.dir)
        have = [it for it in items if lang in it.files]
        B.prepare(have, want_drivers=False) if lang in ('go', 'java', 'rust', 'cpp') else B.prepare(have)
        res = B.run_selftests(have)
        st = per.setdefault(lang, collections.Counter())
        for it in have:
            r = res.get(it.tag)
            ctx.evaluated(1, key=(it.tag, lang))
            if r is None:
                continue
            st[r[0]] += 1
            if r[0] == 'pass':
                names = r[2] if len(r) > 2 else None
                if names is not None and lang in ('python', 'rust', 'cpp', 'java'):
                    missing = [pk.name for pk in it.proto.packets if not any(test_matches(lang, it, pk.name, n) for n in names)]
                    if missing:
                        triage_wire(ctx, 'C17', lang, it, 'packet-without-test', 'no emitted test for %s (tests: %s)' % (missing, names[:6]), {'tests': names})
                continue
            if r[0] == 'watchdog':
                ctx.inconc('watchdog: %s self-tests of %s' % (lang, it.tag))
                continue
            if r[0] == 'no-tests':
                triage_wire(ctx, 'C17', lang, it, 'no-tests-emitted', 'no test file / no test found', {})
                continue
            triage_wire(ctx, 'C17', lang, it, 'selftest-' + r[0], first_error(r[1]) if r[0] == 'build-fail' else r[1][-400:].replace('\n', ' | '), {'log': r[1][:3000]})
    ctx.cov['per_language'] = {l: dict(c) for l, c in per.items()}
    ctx.sample({'dsl': items[0].text[:500], 'results': {l: dict(c) for l, c in per.items()}})
    from . import probes
    probes.run_probes(ctx, 'C17')


def test_matches(lang, it, pkname, testname):
    t = testname.lower().replace('_', '')
    return it.snake(pkname).replace('_', '') in t or pkname.lower() in t


# ------------------------------------------------------------------------------------------------ C15

def first_payload_end(lay):
    """smallest offset at which a match payload that occupies bytes ends (nested payloads included; a huge number when there is none)."""
    ends = {}
    for e in lay.items:
        path = e['path']
        pos = 0
        while True:
            k = path.find('>', pos)
            if k < 0:
                break
            pre = path[:k + 1]
            lo, hi = ends.get(pre, (e['off'], e['off']))
            ends[pre] = (min(lo, e['off']), max(hi, e['off'] + e['len']))
            pos = k + 1
    cand = [hi for lo, hi in ends.values() if hi > lo]
    return min(cand) if cand else 1 << 62


def c15(ctx):
    from . import lang_lua
    ctx.cov['rule'] = ('protocols: feature matrix + random compositions (byte orders, prefix types, variable-size content before/after nested, repeated and match members); the emitted Lua dissector runs in a Lua 5.3 host '
                       'over a mock Wireshark API on the reference bytes of each message. monitor: every tree:add/le_add(ProtoField, range) -> (field, offset, length, byte order), every tvb prefix read, the value of the '
                       'dissector\'s local `offset` at return (debug.sethook), every Lua error (nil helper, range out of bounds). oracle: the (field, offset, length) sequence == reference layout\'s leaf sequence, '
                       'prefixes read at the right offset/width/order, final offset == message length. distinct = (protocol, message)')
    pool = wire_pool(ctx, nrand=15)
    items = make(ctx, pool, ['lua'])
    nadd = 0
    for it in items:
        if it.gen_panics.get('lua'):
            triage_wire(ctx, 'C15', 'lua', it, 'generator-panic', it.gen_panics['lua']['site'], {})
            continue
        if 'lua' not in it.files:
            continue
        out = lang_lua.run(it, ctx.scr.dir, [(str(i), it.ref[i][0]) for i in range(len(it.msgs))])
        if out.fired:
            ctx.inconc('watchdog: lua host on %s' % it.tag)
            continue
        if out.load != 'ok':
            triage_wire(ctx, 'C15', 'lua', it, 'script-does-not-load', str(out.load)[:300], {'raw': out.raw[:1500]})
            continue
        le = it.proto.cfg()['le']
        for i in range(len(it.msgs)):
            c = out.cases.get(str(i))
            ctx.evaluated(1, key=(it.tag, i))
            leaves, prefixes, total = lang_lua.expected_events(it, i)
            rep = {'message': msg_json(it.msgs[i][1]), 'bytes': it.ref[i][0].hex(), 'expected_fields': leaves[:40], 'events': c and c['events'][:60]}
            if c is None or not c['ended']:
                triage_wire(ctx, 'C15', 'lua', it, 'host-died', 'no result for message %d' % i, rep)
                continue
            adds = []
            reads = set()
            for e in c['events']:
                p = e.split(' ')
                if p[0] == 'ADD':
                    adds.append((p[1], int(p[2]), int(p[3]), p[4]))
                    nadd += 1
                elif p[0] == 'READ':
                    reads.add((int(p[1]), int(p[2]), p[3]))
            got = sorted([(a[0], a[1], a[2]) for a in adds], key=lambda x: (x[1], x[2]))
            # the recorded match-offset finding explains drift AFTER the first non-empty match payload only: everything up to
            # the end of that payload must be attributed correctly even in a protocol that carries the finding's feature
            pend = first_payload_end(it.ref[i][1])
            head = [x for x in leaves if x[1] < pend]
            head_ok = [(x[0], x[1], x[2]) for x in adds][:len(head)] == head        # in the order the dissector added them (a drifted later field sorts into the payload)
            early = '' if head_ok else '-before-first-payload-end'
            if c['err']:
                cls = 'lua-error'
                if 'nil value (global' in c['err']:
                    cls = 'helper-missing'
                elif 'out of bounds' in c['err']:
                    cls = 'range-out-of-bounds'
                triage_wire(ctx, 'C15', 'lua', it, cls + early, re.sub(r'/tmp/\S+/', '', c['err'])[:300], rep)
                continue
            if got != leaves:
                k = next((n for n, (a, b) in enumerate(zip(got, leaves)) if a != b), min(len(got), len(leaves)))
                triage_wire(ctx, 'C15', 'lua', it, 'field-ranges-differ' + early, 'field #%d: dissector %s, wire layout %s (%d vs %d fields)' % (
                    k, got[k] if k < len(got) else None, leaves[k] if k < len(leaves) else None, len(got), len(leaves)), rep)
                continue
            # byte order of multi-byte scalar adds
            for a in adds:
                if a[2] > 1 and a[3] != ('le' if le else 'be') and not a[0].endswith('__str'):
                    lay = [e for e in it.ref[i][1].items if e['off'] == a[1] and e['kind'] == 'leaf']
                    if lay and lay[0]['fkind'].split(':')[0] in ('num', 'len', 'cksum'):
                        triage_wire(ctx, 'C15', 'lua', it, 'byte-order-wrong', '%s added with %s, configured %s' % (a[0], a[3], 'le' if le else 'be'), rep)
                        break
            for off, ln in prefixes:
                if not any(r[0] == off and r[1] == ln and (ln == 1 or r[2].startswith('le_') == le) for r in reads):
                    triage_wire(ctx, 'C15', 'lua', it, 'prefix-read-wrong', 'no read of the %d-byte prefix at offset %d with the configured byte order (reads: %s)' % (ln, off, sorted(reads)[:8]), rep)
                    break
            if c['final'] != str(total):
                triage_wire(ctx, 'C15', 'lua', it, 'final-offset-wrong', 'dissector finishes at offset %s, message length %d' % (c['final'], total), rep)
    ctx.cov['tree_add_events'] = nadd
    it = items[0]
    ctx.sample({'dsl': it.text[:500], 'bytes': it.ref[0][0].hex(), 'expected_fields': lang_lua.expected_events(it, 0)[0][:10]})
    if nadd == 0:
        ctx.inconc('the Lua monitor observed no tree:add event')
    from . import probes
    probes.run_probes(ctx, 'C15')


CHECKS = {'C01': c01, 'C02': c02, 'C03': c03, 'C04': c04, 'C05': c05, 'C06': c06, 'C07': c07, 'C15': c15, 'C17': c17}

"""Fault injector for C12: from a well-formed protocol, all single-fault variants of every class at every site.
Each variant carries a mark on the offending declaration (so its line span is known after layout) and the identifier
a diagnostic should name."""
import copy

from .spec import Field, MetaEntry, Packet


class Faulted:
    def __init__(self, cls, proto, ident, site, span='decl'):
        self.cls = cls
        self.proto = proto
        self.ident = ident      # identifier the diagnostic should mention (or None)
        self.site = site        # human-readable site
        self.span = span


def all_fields(p):
    """(packet, container list, field, depth) for every field incl. inline members."""
    out = []

    def rec(pk, lst, depth):
        for f in lst:
            out.append((pk, lst, f, depth))
            if f.kind == 'inline':
                rec(pk, f.fields, depth + 1)
    for pk in p.packets:
        rec(pk, pk.fields, 0)
    return out


def inject_all(base):
    out = []

    def clone():
        return copy.deepcopy(base)

    # ---- duplicate packet (every packet, duplicate placed at the end)
    for i, pk in enumerate(base.packets):
        p = clone()
        dup = copy.deepcopy(p.packets[i])
        dup.root = False
        dup._mark = True
        p.packets.append(dup)
        out.append(Faulted('dup-packet', p, pk.name, 'packet %s' % pk.name))
    # ---- second root
    for i, pk in enumerate(base.packets):
        if pk.root or base.root is None:
            continue
        p = clone()
        ri = next(k for k, x in enumerate(p.packets) if x.root)
        if i < ri:
            # the later one in the text is the offending declaration
            p.packets[i].root = True
            p.packets[ri]._mark = True
            nm = p.packets[ri].name
        else:
            p.packets[i].root = True
            p.packets[i]._mark = True
            nm = p.packets[i].name
        out.append(Faulted('second-root', p, None, 'packet %s' % nm))
    # ---- duplicate MetaData entry
    for bi, (blk, ents) in enumerate(base.metadata):
        for ei, e in enumerate(ents):
            p = clone()
            dup = copy.deepcopy(p.metadata[bi][1][ei])
            dup._mark = True
            p.metadata[bi][1].append(dup)
            out.append(Faulted('dup-metadata', p, e.name, 'MetaData %s.%s' % (blk, e.name)))
    # ---- options: duplicate / unknown / illegal value
    for name, value in base.options.items():
        p = clone()
        p.extra_options = [(name, value, True)]
        out.append(Faulted('dup-option', p, name, 'option %s' % name))
    p = clone()
    p.extra_options = [('BogusOption', '1', True)]
    out.append(Faulted('unknown-option', p, 'BogusOption', 'option BogusOption'))
    p = clone()
    p.extra_options = [('littleEndian', 'true', True)]
    out.append(Faulted('unknown-option', p, 'littleEndian', 'option littleEndian (wrong case)'))
    illegal = {'LittleEndian': ['1', '"yes"', 'u8'], 'StringPrefixLenType': ['i8', 'f32', '16', 'string'],
               'ArrayPrefixLenType': ['i16', 'f64', '2', 'char'], 'FixedStringPadFromLeft': ['0', '"yes"', 'u8'],
               'FixedStringPadChar': ['"x"', '0', 'true', 'u8']}
    for name, vals in illegal.items():
        if name in base.options:
            continue
        for v in vals:
            p = clone()
            p.extra_options = [(name, v, True)]
            out.append(Faulted('illegal-option-value', p, name, 'option %s = %s' % (name, v)))
    # ---- duplicate field (top level and inside inline objects)
    for idx, (pk, lst, f, depth) in enumerate(all_fields(base)):
        if f.kind in ('match', 'len', 'cksum'):
            continue
        p = clone()
        pk2, lst2, f2, _ = all_fields(p)[idx]
        dup = copy.deepcopy(f2)
        if dup.kind == 'inline':
            # a second inline object with the same name also re-declares the inline type; keep it a plain field instead
            dup = Field('num', f2.name, ntype='u8')
        dup._mark = True
        dup.pad = None if hasattr(dup, 'pad') and depth > 0 else getattr(dup, 'pad', None)
        lst2.append(dup)
        out.append(Faulted('dup-field' if depth == 0 else 'dup-field-inline', p, f.name, 'field %s.%s' % (pk.name, f.name)))
    # ---- duplicate field whose SECOND declaration is a match field (same name as an earlier plain field of that packet)
    for idx, (pk, lst, f, depth) in enumerate(all_fields(base)):
        if f.kind != 'match' or depth != 0:
            continue
        first = next((g for g in lst if g.kind in ('num', 'dyn', 'fix') and g.name != f.key), None)
        if first is None:
            continue
        p = clone()
        pk2, lst2, f2, _ = all_fields(p)[idx]
        dup = copy.deepcopy(f2)
        dup.name = first.name
        dup._mark = True
        lst2.append(dup)
        out.append(Faulted('dup-field', p, first.name, 'field %s.%s declared again as a match field' % (pk.name, first.name)))
    # ---- match faults
    for idx, (pk, lst, f, depth) in enumerate(all_fields(base)):
        if f.kind != 'match':
            continue
        flat = [(pi, k) for pi, (ks, _) in enumerate(f.pairs) for k in ks]
        # duplicate single key
        for pi, (ks, pkt) in enumerate(f.pairs):
            p = clone()
            f2 = all_fields(p)[idx][2]
            f2.pairs.append(([ks[0]], pkt))
            f2._mark_pair = len(f2.pairs) - 1
            out.append(Faulted('dup-match-key', p, str(ks[0]) if isinstance(ks[0], int) else '"%s"' % ks[0], 'match %s key %r repeated as a single pair' % (f.name, ks[0])))
            p = clone()
            f2 = all_fields(p)[idx][2]
            other = 99991 if isinstance(ks[0], int) else 'ZZQ'
            f2.pairs.append(([other, ks[0]], pkt))
            f2._mark_pair = len(f2.pairs) - 1
            out.append(Faulted('dup-match-key-in-list', p, str(ks[0]) if isinstance(ks[0], int) else '"%s"' % ks[0], 'match %s key %r repeated inside a list' % (f.name, ks[0])))
        p = clone()
        f2 = all_fields(p)[idx][2]
        k0 = 99992 if isinstance(f.pairs[0][0][0], int) else 'ZZR'
        f2.pairs.append(([k0, k0], f.pairs[0][1]))
        f2._mark_pair = len(f2.pairs) - 1
        out.append(Faulted('dup-match-key-in-list', p, str(k0) if isinstance(k0, int) else '"%s"' % k0, 'match %s: key %r twice in one list' % (f.name, k0)))
        # undeclared packet in a pair
        p = clone()
        f2 = all_fields(p)[idx][2]
        kx = 99993 if isinstance(f.pairs[0][0][0], int) else 'ZZS'
        f2.pairs.append(([kx], 'NoSuchPacket'))
        f2._mark_pair = len(f2.pairs) - 1
        out.append(Faulted('undeclared-packet-match', p, 'NoSuchPacket', 'match %s pair -> NoSuchPacket' % f.name))
        # undeclared key field
        p = clone()
        f2 = all_fields(p)[idx][2]
        f2.key = 'NoSuchKey'
        f2._mark = True
        out.append(Faulted('undeclared-match-key-field', p, 'NoSuchKey', 'match NoSuchKey as %s' % f.name))
    # ---- undeclared packet: object field / inline member
    for pi, pk in enumerate(base.packets):
        p = clone()
        nf = Field('ref', 'Ghost', packet='NoSuchPacket', named=True)
        nf._mark = True
        p.packets[pi].fields.append(nf)
        out.append(Faulted('undeclared-packet-field', p, 'NoSuchPacket', 'field NoSuchPacket Ghost in %s' % pk.name))
    for idx, (pk, lst, f, depth) in enumerate(all_fields(base)):
        if f.kind != 'inline':
            continue
        p = clone()
        f2 = all_fields(p)[idx][2]
        nf = Field('ref', 'Ghost', packet='NoSuchPacket', named=True)
        nf._mark = True
        f2.fields.append(nf)
        out.append(Faulted('undeclared-packet-inline', p, 'NoSuchPacket', 'inline member NoSuchPacket Ghost in %s.%s' % (pk.name, f.name)))
    # ---- length-of faults
    root = base.root
    if root is not None:
        tgt = [f for f in root.fields if f.kind in ('match', 'ref') and not f.repeat]
        has_len = any(f.kind == 'len' for f in root.fields)
        # undeclared target
        p = clone()
        lf = Field('len', 'GhostLen', ntype='u16', target='NoSuchTarget', prefixed=False, typed=True)
        lf._mark = True
        if not has_len:
            p.root.fields.insert(0, lf)
            out.append(Faulted('undeclared-length-target', p, 'NoSuchTarget', 'u16 GhostLen @lengthOf(NoSuchTarget) in root'))
        # second LEN in root
        if has_len:
            for prefixed in (False, True):
                p = clone()
                first = next(f for f in p.root.fields if f.kind == 'len')
                lf = Field('len', 'SecondLen', ntype='u32', target=first.target, prefixed=prefixed, typed=True)
                lf._mark = True
                p.root.fields.insert(p.root.fields.index(first) + 1, lf)
                out.append(Faulted('second-length', p, None, 'second @lengthOf in root (%s)' % ('prefixed' if prefixed else 'inline')))
                # ... and a second length-of that names ANOTHER target (a new member of a new empty packet)
                p = clone()
                first = next(f for f in p.root.fields if f.kind == 'len')
                p.packets.append(Packet('ExtraTgt', []))
                at = len(p.root.fields) - (1 if p.root.fields[-1].kind == 'cksum' else 0)
                lf = Field('len', 'ExtraLen', ntype='u16', target='Extra', prefixed=prefixed, typed=True)
                lf._mark = True
                p.root.fields[at:at] = [lf, Field('ref', 'Extra', packet='ExtraTgt', named=True)]
                out.append(Faulted('second-length', p, None, 'second @lengthOf in root naming another target (%s)' % ('prefixed' if prefixed else 'inline')))
    # LEN outside root
    for pi, pk in enumerate(base.packets):
        if pk.root:
            continue
        t = [f for f in pk.fields if f.kind in ('match', 'ref') and not f.repeat]
        p = clone()
        if t:
            tname = t[0].name
            at = pk.fields.index(t[0])
        else:
            # add a target too
            later = [x for x in base.packets if x is not pk and not x.root and not x.fields]
            if not later:
                continue
            tname = 'LenTgt'
            p.packets[pi].fields.append(Field('ref', 'LenTgt', packet=later[0].name, named=True))
            at = len(p.packets[pi].fields) - 1
        for prefixed in (False, True):
            q = copy.deepcopy(p)
            lf = Field('len', 'StrayLen', ntype='u16', target=tname, prefixed=prefixed, typed=True)
            lf._mark = True
            q.packets[pi].fields.insert(at, lf)
            out.append(Faulted('length-outside-root', q, None, '@lengthOf in non-root packet %s (%s)' % (pk.name, 'prefixed' if prefixed else 'inline')))
    return out

"""C13 (determinism), C14 (target independence), C08 (meaning not spelling): relational monitors over compile outputs."""
import itertools
import os
import random
import shutil
import subprocess

from . import dslprint, gen, tools
from .spec import features

FLAGS = {'lua': '-l', 'rust': '-r', 'go': '-g', 'java': '-j', 'python': '-p', 'cpp': '-c'}


def read_tree(root):
    out = {}
    for dp, dn, fn in os.walk(root):
        for f in fn:
            p = os.path.join(dp, f)
            with open(p, 'rb') as fh:
                out[os.path.relpath(p, root)] = fh.read()
    return out


def cli_compile(ctx, text, langs, workdir, with_word=False, timeout=120, shared=False):
    """run the real CLI in a fresh process; returns (rc, stdout, {lang: tree}); shared: every target writes into ONE directory"""
    os.makedirs(workdir, exist_ok=True)
    src = os.path.join(workdir, 'in.dsl')
    with open(src, 'wb') as f:
        f.write(text.encode('utf-8', 'surrogateescape') if isinstance(text, str) else text)
    cmd = [ctx.cli] + (['compile'] if with_word else []) + ['-f', src]
    outs = {}
    for l in langs:
        d = os.path.join(workdir, 'out_shared' if shared else 'out_' + l)
        outs[l] = d
        cmd += [FLAGS[l], d]
    logp = os.path.join(workdir, 'cli.log')
    with open(logp, 'wb') as lf:
        p = subprocess.run(['timeout', '-s', 'QUIT', '-k', '5', str(timeout)] + cmd, stdout=lf, stderr=subprocess.STDOUT, cwd=workdir)
    with open(logp, 'rb') as lf:
        log = lf.read().decode('utf-8', 'replace')
    trees = {l: (read_tree(d) if os.path.isdir(d) else {}) for l, d in outs.items()}
    return p.returncode, log, trees


def tree_diff(a, b):
    d = []
    for k in sorted(set(a) | set(b)):
        if k not in a:
            d.append('+' + k)
        elif k not in b:
            d.append('-' + k)
        elif a[k] != b[k]:
            d.append('~' + k)
    return d


def first_line_diff(a, b):
    la, lb = a.decode('utf-8', 'replace').split('\n'), b.decode('utf-8', 'replace').split('\n')
    for i, (x, y) in enumerate(zip(la, lb)):
        if x != y:
            return 'line %d: %r vs %r' % (i + 1, x[:160], y[:160])
    return 'length %d vs %d lines' % (len(la), len(lb))


POOL_SEED = 20260929   # protocol pools are fixed (validated silent on the unchanged tree); VERIF_SEED drives messages, spellings, layouts, comment positions


def rich_pool(seed, n, prefix):
    out = []
    for i in range(n):
        rng = random.Random('%s/%s/%d' % (prefix, POOL_SEED, i))
        out.append(gen.rich_proto(rng, gen.alpha_tag(prefix, i)))
    return out


# ------------------------------------------------------------------------------------------------ C13

def c13(ctx):
    quick = ctx.tier == 'quick'
    nproto, r1, r2 = (30, 16, 8) if quick else (200, 64, 32)
    ctx.cov['rule'] = ('protocols with >=2 entries in every map the emitters range over (5-12 packets, 2-3 match fields per packet, '
                       'cross references); each compiled R1=%d times in one process (fresh parse) and R2=%d times in fresh CLI processes; '
                       'distinct = protocol x target pairs with >=2 packets; verdict = byte equality of file sets' % (r1, r2))
    can = ctx.vapi.call({'op': 'canary', 'n': 8, 'reps': r1})
    ctx.cov['canary_distinct_orders'] = can['distinct_orders']
    if can['distinct_orders'] < 2:
        ctx.inconc('map-order canary saw <2 distinct iteration orders: randomisation not observable, the run proves nothing')
        return
    mat = gen.matrix_protos()
    fam = lambda pre: [p for p in mat if p.tag.startswith(pre)]
    pool = rich_pool(ctx.seed, nproto, 'Dt') + (fam('Mo') + fam('Mm')[::3] + fam('Ml')[::6] + fam('Mc')[::8] if quick else fam('Mo') + fam('Mm') + fam('Ml') + fam('Mc') + fam('Md') + fam('Mk'))
    # protocols some generators refuse (no root packet): what is written before the CLI stops must not vary from run to run either
    import copy
    for q in fam('Mm')[:2] + fam('Mo')[:1]:
        q = copy.deepcopy(q)
        for pk in q.packets:
            pk.root = False
        q.tag = q.tag + 'nr'
        q.expect_failure = True
        pool.insert(0, q)
    per_target = {l: 0 for l in tools.LANGS}
    distinct_outputs = {l: 1 for l in tools.LANGS}
    ncli = 0
    for pi, p in enumerate(pool):
        # every other protocol is written on ONE line (minified text): declarations then share a source line
        text = dslprint.render(p) if pi % 2 == 0 else dslprint.render(p, style='oneline')
        ctx.counters['text-layout:' + ('pretty' if pi % 2 == 0 else 'oneline')] += 1
        r = ctx.vapi.call({'op': 'repeat', 'text_b64': tools.b64(text), 'langs': tools.LANGS, 'reps': r1})
        for l in tools.LANGS:
            if l in r['bad']:
                ctx.counters['generator-failed:' + l] += 1
                continue
            ctx.evaluated(r1, key=(p.tag, l), nontrivial=len(p.packets) >= 2)
            per_target[l] += 1
            n = r['distinct'].get(l, 0)
            distinct_outputs[l] = max(distinct_outputs[l], n)
            if n > 1:
                triage(ctx, 'C13', l, p, text, 'nondeterministic-output', 'in-process: %d distinct outputs over %d compilations; differing: %s' % (n, r1, r['diffs'].get(l)),
                       {'dsl': text, 'lang': l, 'diffs': r['diffs'].get(l), 'mode': 'in-process', 'reps': r1})
        # fresh processes
        if ncli < (12 if quick else 60):
            ncli += 1
            base = None
            for k in range(r2):
                wd = os.path.join(ctx.scr.dir, 'c13', p.tag, str(k))
                if base is not None and k % 2 == 1 and not getattr(p, 'expect_failure', False):
                    # "the same DSL with the same flags" into directories that were used before: every file already exists
                    # with other, longer content
                    ctx.counters['cli-runs-into-used-directories'] += 1
                    for l in tools.LANGS:
                        for fi, (fn, data) in enumerate(sorted(base[l].items())):
                            fp = os.path.join(wd, 'out_' + l, fn)
                            os.makedirs(os.path.dirname(fp), exist_ok=True)
                            with open(fp, 'wb') as fh:
                                if (fi + k // 2) % 2:
                                    fh.write(data[::-1])      # other content of exactly the SAME size
                                else:
                                    fh.write(b'stale\n' + data[::-1] + b'\nstale tail of an earlier, longer revision\n' * 8)
                rc, log, trees = cli_compile(ctx, text, tools.LANGS, wd)
                if rc != 0 and not getattr(p, 'expect_failure', False):
                    ctx.counters['cli-nonzero'] += 1
                    shutil.rmtree(wd, ignore_errors=True)
                    break
                if getattr(p, 'expect_failure', False):
                    ctx.counters['cli-runs-of-refused-protocols'] += 1
                    trees = dict(trees, **{'__exit__': {'status': str(rc).encode()}})
                if base is None:
                    base = trees
                    if getattr(p, 'expect_failure', False):
                        shutil.rmtree(wd, ignore_errors=True)
                        continue
                    # "independent of process": the helper process has compiled many other protocols before this one, the CLI process none
                    inproc = ctx.vapi.compile(text, tools.LANGS)
                    for l in tools.LANGS:
                        if l not in inproc['files']:
                            continue
                        ctx.evaluated(1, key=(p.tag, l, 'inproc-vs-cli'))
                        ctx.counters['in-process-vs-fresh-process-comparisons'] += 1
                        d = tree_diff(trees[l], inproc['files'][l])
                        if d:
                            triage(ctx, 'C13', l, p, text, 'nondeterministic-output', 'a fresh CLI process and the long-running helper process (which compiled other protocols before) differ in %s: %s' % (
                                d[:5], first_line_diff(trees[l].get(d[0][1:], b''), inproc['files'][l].get(d[0][1:], b''))), {'dsl': text, 'lang': l, 'diffs': d, 'mode': 'inproc-vs-cli'})
                else:
                    for l in tools.LANGS + (['__exit__'] if getattr(p, 'expect_failure', False) else []):
                        ctx.evaluated(1, key=(p.tag, l, 'cli'), nontrivial=len(p.packets) >= 2)
                        d = tree_diff(base[l], trees[l])
                        if d:
                            distinct_outputs[l] = max(distinct_outputs[l], 2)
                            triage(ctx, 'C13', l, p, text, 'nondeterministic-output', 'fresh CLI processes: run %d differs from run 0 in %s' % (k, d[:5]),
                                   {'dsl': text, 'lang': l, 'diffs': d, 'mode': 'cli', 'run': k})
                shutil.rmtree(wd, ignore_errors=True)
        if len(ctx.cov['samples']) < 3:
            ctx.sample({'dsl': text[:1500], 'packets': len(p.packets), 'distinct_outputs_seen': r['distinct']})
    ctx.cov['per_target_protocols'] = per_target
    ctx.cov['max_distinct_outputs_per_target'] = distinct_outputs
    ctx.assumptions += ['wall-clock year is constant during the run (the C++ header embeds time.Now().Year())',
                        'Go map iteration order randomisation is the only scheduling source (no goroutines in fin-protoc)']
    probes(ctx, 'C13')


# ------------------------------------------------------------------------------------------------ C14

def c14(ctx):
    quick = ctx.tier == 'quick'
    nproto, ncli = (8, 4) if quick else (60, 30)
    ctx.level = 'exploration'
    orders = [list(o) for o in itertools.permutations(tools.LANGS)]
    ctx.cov['rule'] = ('protocols rich in fixed strings (zchar, every declared pad form, configured pad options, MetaData-typed fixed strings shared by '
                       'several fields); for each, all 720 orders of the six generators over ONE parsed model, every output compared with the '
                       'stand-alone output on a fresh parse, plus a deep model snapshot before/after every generator call; through the CLI all 64 '
                       'subsets of the output flags; distinct = (protocol, order) and (protocol, subset) pairs')
    ctx.cov['orders_per_protocol'] = len(orders)
    ctx.cov['exhaustive'] = False
    ctx.cov['exhaustive_in'] = 'generator orders (720 of 720) and flag subsets (64 of 64) per protocol; protocols are sampled'
    pool = rich_pool(ctx.seed, nproto, 'In')
    pool += [p for p in gen.matrix_protos() if p.tag.startswith(('Mf', 'Md', 'Mp'))][:(12 if quick else 80)]
    pool += [p for p in gen.matrix_protos() if p.tag.startswith(('Mm', 'Ml'))][::(4 if quick else 1)]
    pool += [p for p in gen.matrix_protos() if p.tag.startswith('Mi')]     # identifier shapes: case conversion must not depend on what ran before
    pool += [p for p in gen.matrix_protos() if p.tag.startswith('Mc') and any(f.kind == 'cksum' and f.algo != f.algo.upper() for pk in p.packets for f in pk.fields)][:6]   # names a generator might "normalise" in the shared model
    from .checks_wire import ident_protos
    pool += ident_protos(0)          # packet names that are not UpperCamel: a generator that "normalises" names in the shared model shows here
    import copy
    for q in [p for p in gen.matrix_protos() if p.tag.startswith('Mm')][:2] + [p for p in gen.matrix_protos() if p.tag.startswith('Mo')][:1]:
        q = copy.deepcopy(q)         # no root packet: some generators refuse such a model - they must refuse it whatever ran before
        for pk in q.packets:
            pk.root = False
        q.tag = q.tag + 'nr'
        pool.append(q)
    gens = snaps = 0
    # one helper process per target that never runs any other generator: the only baseline that process-wide state left behind by
    # another generator (package-level caches, library configuration) cannot reach
    solo = {l: ctx.new_vapi('solo_' + l) for l in tools.LANGS}
    for idx, p in enumerate(pool):
        text = dslprint.render(p)
        use_orders = orders if idx < nproto else orders[::24]
        r = ctx.vapi.call({'op': 'orders', 'text_b64': tools.b64(text), 'orders': use_orders, 'snap': True}, timeout=600)
        gens += r['generates']
        snaps += r['snapshots']
        for l, why in r['alone_bad'].items():
            ctx.counters['alone-failed:' + l] += 1
        for o in use_orders:
            ctx.evaluated(1, key=(p.tag, tuple(o)))
        seen = set()
        for d in r['discrepancies'] or []:
            k = (d['lang'], d['kind'])
            if k in seen:
                continue
            seen.add(k)
            triage(ctx, 'C14', d['lang'], p, text, d['kind'], 'order %s: %s %s %s' % ('>'.join(d['order']), d['kind'], d.get('diff') or '', (d.get('detail') or '')[:300]),
                   {'dsl': text, 'order': d['order'], 'lang': d['lang'], 'kind': d['kind'], 'diff': d.get('diff'), 'detail': d.get('detail')})
        if len(ctx.cov['samples']) < 2:
            ctx.sample({'dsl': text[:1200], 'orders_run': len(use_orders), 'generates': r['generates'], 'snapshots_compared': r['snapshots']})
        # the process that has by now run every generator many times vs the single-target processes
        together = ctx.vapi.compile(text, tools.LANGS)
        for l in tools.LANGS:
            alone = solo[l].compile(text, [l])
            if l not in alone['files'] or l not in together['files']:
                continue
            ctx.evaluated(1, key=(p.tag, l, 'solo-process'))
            ctx.counters['solo-process-comparisons'] += 1
            d = tree_diff(alone['files'][l], together['files'][l])
            if d:
                triage(ctx, 'C14', l, p, text, 'output-differs', '%s generated in a process that also ran the other generators differs from a process that only ever ran %s: %s %s' % (
                    l, l, d[:4], first_line_diff(alone['files'][l].get(d[0][1:], b''), together['files'][l].get(d[0][1:], b''))),
                    {'dsl': text, 'lang': l, 'diff': d, 'mode': 'solo-process'})
    for l in tools.LANGS:
        solo[l].stop()
    ctx.cov['generator_runs'] = gens
    ctx.cov['model_snapshots_compared'] = snaps
    # CLI: all 64 subsets
    subsets = [[l for i, l in enumerate(tools.LANGS) if m >> i & 1] for m in range(1, 64)]
    pairs_only = [x for x in pool if x.tag.startswith('Mi')]
    for p in pool[:ncli] + pairs_only:
        text = dslprint.render(p)
        alone = {}
        for l in tools.LANGS:
            wd = os.path.join(ctx.scr.dir, 'c14', p.tag, 'alone_' + l)
            rc, log, trees = cli_compile(ctx, text, [l], wd)
            alone[l] = (rc, trees[l])
            shutil.rmtree(wd, ignore_errors=True)
        for si, sub in enumerate(subsets):
            if len(sub) == 1 or (p in pairs_only and len(sub) not in (2, 6)):
                continue
            wd = os.path.join(ctx.scr.dir, 'c14', p.tag, 's%d' % si)
            rc, log, trees = cli_compile(ctx, text, sub, wd)
            shutil.rmtree(wd, ignore_errors=True)
            ctx.evaluated(1, key=(p.tag, 'subset', si))
            if rc != 0:
                ctx.counters['cli-nonzero'] += 1
                if all(alone[l][0] == 0 for l in sub):
                    triage(ctx, 'C14', sub[-1], p, text, 'fails-only-together', 'CLI flags %s: exit status %d although each of these targets compiles alone; files written: %s | %s' % (
                        sub, rc, {l: len(trees[l]) for l in sub}, log[-300:].replace('\n', ' | ')), {'dsl': text, 'subset': sub, 'exit_status': rc, 'output': log[-1500:]})
                continue
            for l in sub:
                if alone[l][0] != 0:
                    continue
                d = tree_diff(alone[l][1], trees[l])
                if d:
                    triage(ctx, 'C14', l, p, text, 'output-differs', 'CLI flags %s: %s tree differs from %s alone: %s' % (sub, l, l, d[:4]),
                           {'dsl': text, 'subset': sub, 'lang': l, 'diff': d})
        # several targets into ONE directory: the union of the stand-alone file sets, each file unchanged
        for sub in ([tools.LANGS] + [list(x) for x in itertools.combinations(tools.LANGS, 2)][::(4 if quick else 1)]) if p not in pairs_only else []:
            if any(alone[l][0] != 0 for l in sub):
                continue
            union = {}
            clash = False
            for l in sub:
                for fn, data in alone[l][1].items():
                    if fn in union and union[fn] != data:
                        clash = True
                    union[fn] = data
            if clash:
                continue        # two targets emit different files under one relative name: what "the" result is there is undefined
            wd = os.path.join(ctx.scr.dir, 'c14', p.tag, 'shared_' + '_'.join(sub))
            rc, log, trees = cli_compile(ctx, text, sub, wd, shared=True)
            shutil.rmtree(wd, ignore_errors=True)
            ctx.evaluated(1, key=(p.tag, 'shared-dir', tuple(sub)))
            ctx.counters['cli-runs-into-one-shared-directory'] += 1
            if rc != 0:
                ctx.counters['cli-nonzero'] += 1
                triage(ctx, 'C14', sub[-1], p, text, 'fails-only-together', 'targets %s into ONE directory: exit status %d although each compiles alone: %s' % (sub, rc, log[-300:].replace('\n', ' | ')),
                       {'dsl': text, 'subset': sub, 'exit_status': rc, 'output': log[-1500:], 'mode': 'shared-directory'})
                continue
            d = tree_diff(union, trees[sub[0]])
            if d:
                triage(ctx, 'C14', sub[0], p, text, 'output-differs', 'targets %s written into ONE directory: the directory differs from the union of the stand-alone file sets: %s' % (sub, d[:5]),
                       {'dsl': text, 'subset': sub, 'diff': d, 'mode': 'shared-directory'})
    ctx.cov['cli_subsets_per_protocol'] = 63
    probes(ctx, 'C14')


# ------------------------------------------------------------------------------------------------ shared triage

def triage(ctx, prop, lang, proto, text, cls, what, replay):
    """clean-lane failure: explained by an open known finding whose predicate covers this case -> counted, else violation."""
    from . import check
    feats = features(proto)
    app = [fd for fd in check.applicable(ctx.findings_db, prop, lang, feats) if check.symptom_matches(fd, cls, what)]
    if app:
        ctx.finding_excluded[app[0]['id']] += 1
        ctx.known_finding(app[0]['id'], app[0]['what'])
        return False
    ctx.violation((prop, lang, cls, proto.tag), '%s/%s %s: %s' % (lang, proto.tag, cls, what), replay)
    return True


def probes(ctx, prop):
    """probe lane: run every open finding's probe for this property (implemented per check via PROBERS)."""
    from . import probes as pr
    pr.run_probes(ctx, prop)


CHECKS = {'C13': c13, 'C14': c14}


# ------------------------------------------------------------------------------------------------ C08

def base_pool(seed, nrand, nrich, prefix):
    pool = list(gen.matrix_protos())
    for i in range(nrand):
        pool.append(gen.random_proto(random.Random('%s/%s/r%d' % (prefix, POOL_SEED, i)), gen.alpha_tag(prefix + 'r', i)))
    for i in range(nrich):
        pool.append(gen.rich_proto(random.Random('%s/%s/h%d' % (prefix, POOL_SEED, i)), gen.alpha_tag(prefix + 'h', i), npk=random.Random(i).randint(3, 7)))
    return pool


REWRITE_SETS = [
    {'name': 'all-sites', 'p': 1.0},
    {'name': 'random-half', 'p': 0.5},
    {'name': 'sparse', 'p': 0.15},
    {'name': 'alias-only', 'p': 0.0, 'force': {'alias': True}},
    {'name': 'dyn-swap-only', 'p': 0.0, 'force': {'dyn_swap': True}},
    {'name': 'zchar-as-pad', 'p': 0.0, 'force': {'zchar_as_pad': True}},
    {'name': 'explicit-default-pad', 'p': 0.0, 'force': {'explicit_default_pad': True}},
    {'name': 'length-leading-zero', 'p': 0.0, 'force': {'len_zero': True}},
    {'name': 'options-in-two-blocks', 'p': 0.0, 'force': {'split_options': True}},
    {'name': 'len-cksum-spelling', 'p': 0.0, 'force': {'lenspell_swap': True}},
    {'name': 'explicit-default-options', 'p': 0.0, 'force': {('explicit_default:' + k): True for k in dslprint.OPTION_DEFAULTS}},
    {'name': 'keylist-expanded', 'p': 0.0, 'force': {'expand_keylist': True}},
    {'name': 'single-key-as-list', 'p': 0.0, 'force': {'single_as_list': True}},
    {'name': 'inline-metadata-types', 'p': 0.0, 'force': {'inline_meta': True}},
    {'name': 'separators-dropped', 'p': 0.0, 'force': {'drop_pair_comma': True, 'drop_semicolon': True}},
    {'name': 'docs-changed', 'p': 0.0, 'force': {'doc_toggle': True}},
    {'name': 'layout-comments-only', 'p': 0.0},
]
STYLES = ['pretty', 'oneline', 'tokenperline', 'tight', 'random', 'tabs']


def variant_text(p, rs, rng):
    sp = dslprint.Spelling(rng=rng, p=rs['p'], **rs.get('force', {}))
    if 'doc_toggle' not in rs.get('force', {}) and rs['p'] < 1.0:
        sp.force.setdefault('doc_toggle', rng.random() < rs['p'])
    toks = dslprint.tokens(p, sp)
    if rng.random() < 0.6:
        toks = dslprint.insert_comments(toks, rng, p=0.1)
    style = rng.choice(STYLES)
    text, _ = dslprint.layout(toks, style, rng, eol=rng.choice(['\n', '\n', '\r\n']))
    return text, style


def c08(ctx):
    quick = ctx.tier == 'quick'
    nrand, nrich, nvar = (60, 10, 7) if quick else (500, 60, 20)
    ctx.cov['rule'] = ('base protocols (feature matrix + random + rich) printed canonically, then re-printed with meaning-preserving rewrites '
                       '(type aliases, string/char[], zchar vs @rightPad(NUL), explicit default pad, inline vs prefixed @lengthOf/@calculatedFrom, explicit default '
                       'options, key list vs expanded pairs, MetaData-typed vs inlined type, optional separators, docs, comments, layout) at all / random / '
                       'single-kind site subsets; oracle = byte equality of the six emitted file maps; distinct = (protocol, rewrite set) pairs whose text differs from the canonical text')
    pool = base_pool(ctx.seed, nrand, nrich, 'Sp')
    per_set = {rs['name']: 0 for rs in REWRITE_SETS}
    skipped = 0
    for p in pool:
        text0 = dslprint.render(p)
        r0 = ctx.vapi.compile(text0, tools.LANGS)
        if r0.get('syn_err') or r0.get('diags') or not r0.get('parsed'):
            skipped += 1
            ctx.counters['base-rejected'] += 1
            # the canonical spelling is refused: if ANY rewritten spelling of the same protocol is accepted the two texts do not
            # "mean the same" to the compiler (a protocol every spelling of which is refused is C12's subject, not this check's)
            rng = random.Random('%s/%s/v' % (ctx.seed, p.tag))
            for rs in REWRITE_SETS:
                text, style = variant_text(p, rs, rng)
                r = ctx.vapi.compile(text, tools.LANGS)
                ctx.evaluated(1, key=(p.tag, rs['name'], 'base-rejected'))
                if not (r.get('syn_err') or r.get('diags') or not r.get('parsed')):
                    triage(ctx, 'C08', 'all', p, text0, 'variant-rejected', 'the canonical text is rejected (%s %s) while rewrite set %s of the same protocol is accepted' % (
                        (r0.get('syn_err') or '')[:200], r0.get('diags'), rs['name']), {'canonical': text0, 'variant': text, 'rewrite': rs['name'], 'diags': r0.get('diags'), 'syn_err': r0.get('syn_err')})
                    break
            continue
        rng = random.Random('%s/%s/v' % (ctx.seed, p.tag))
        sets = REWRITE_SETS if not quick else [REWRITE_SETS[0], REWRITE_SETS[1]] + rng.sample(REWRITE_SETS[2:], nvar - 2)
        if not quick:
            sets = REWRITE_SETS + [REWRITE_SETS[1]] * (nvar - len(REWRITE_SETS))
        for rs in sets:
            text, style = variant_text(p, rs, rng)
            nontrivial = text != text0
            r = ctx.vapi.compile(text, tools.LANGS)
            if r.get('syn_err') or r.get('diags') or not r.get('parsed'):
                triage(ctx, 'C08', 'all', p, text0, 'variant-rejected', 'rewrite set %s (%s layout) is rejected while the canonical text is accepted: %s %s' % (
                    rs['name'], style, (r.get('syn_err') or '')[:200], r.get('diags')),
                    {'canonical': text0, 'variant': text, 'rewrite': rs['name'], 'diags': r.get('diags'), 'syn_err': r.get('syn_err')})
                continue
            per_set[rs['name']] += 1
            for l in tools.LANGS:
                a, b = r0['files'].get(l), r['files'].get(l)
                if a is None and b is None:
                    ctx.counters['generator-failed-both:' + l] += 1
                    continue
                ctx.evaluated(1, key=(p.tag, rs['name'], l), nontrivial=nontrivial)
                if a is None or b is None:
                    triage(ctx, 'C08', l, p, text0, 'generator-outcome-differs', 'rewrite %s: generator %s on one text only (%s | %s)' % (
                        rs['name'], 'fails', r0['panics'].get(l) or r0['errors'].get(l), r['panics'].get(l) or r['errors'].get(l)),
                        {'canonical': text0, 'variant': text, 'rewrite': rs['name'], 'lang': l})
                    continue
                d = tree_diff(a, b)
                if d:
                    fn = d[0][1:]
                    where = first_line_diff(a.get(fn, b''), b.get(fn, b''))
                    triage(ctx, 'C08', l, p, text0, 'output-differs', 'rewrite %s (%s): %s differs: %s' % (rs['name'], style, d[:3], where),
                           {'canonical': text0, 'variant': text, 'rewrite': rs['name'], 'lang': l, 'diff': d, 'first_difference': where})
            if len(ctx.cov['samples']) < 4 and nontrivial and rs['name'] in ('random-half', 'all-sites'):
                ctx.sample({'rewrite': rs['name'], 'layout': style, 'canonical': text0[:700], 'variant': text[:900]})
    ctx.cov['variants_per_rewrite_set'] = per_set
    # explicit default versus none for the options whose default is the EMPTY string (package / module names)
    import copy
    nemp = 0
    for p in pool[::(20 if quick else 4)]:
        none = copy.deepcopy(p)
        for k in ('JavaPackage', 'GoPackage', 'GoModule'):
            none.options.pop(k, None)
        none.force_options_block = True
        t_none = dslprint.render(none)
        r_none = ctx.vapi.compile(t_none, tools.LANGS)
        if r_none.get('syn_err') or r_none.get('diags') or not r_none.get('parsed'):
            continue
        for which in (('JavaPackage',), ('GoPackage',), ('GoModule',), ('JavaPackage', 'GoPackage', 'GoModule')):
            expl = copy.deepcopy(none)
            for k in which:
                expl.options[k] = '""'
            t_expl = dslprint.render(expl)
            r = ctx.vapi.compile(t_expl, tools.LANGS)
            nemp += 1
            ctx.evaluated(1, key=(p.tag, 'explicit-empty', which))
            if r.get('syn_err') or r.get('diags') or not r.get('parsed'):
                triage(ctx, 'C08', 'all', p, t_none, 'variant-rejected', 'explicit %s = "" is rejected while the text without the option is accepted: %s %s' % (which, r.get('diags'), r.get('syn_err')),
                       {'canonical': t_none, 'variant': t_expl, 'rewrite': 'explicit-empty-default'})
                continue
            for l in tools.LANGS:
                if (l in r_none['files']) != (l in r['files']):
                    triage(ctx, 'C08', l, p, t_none, 'generator-outcome-differs', 'explicit %s = "": generator %s succeeds on one text only' % (which, l), {'canonical': t_none, 'variant': t_expl, 'lang': l})
                    continue
                if l not in r['files']:
                    continue
                d = tree_diff(r_none['files'][l], r['files'][l])
                if d:
                    triage(ctx, 'C08', l, p, t_none, 'output-differs', 'explicit %s = "" versus no such option: %s differs: %s' % (which, d[:3], first_line_diff(r_none['files'][l].get(d[0][1:], b''), r['files'][l].get(d[0][1:], b''))),
                           {'canonical': t_none, 'variant': t_expl, 'rewrite': 'explicit-empty-default', 'lang': l, 'diff': d})
    ctx.cov['explicit_empty_default_variants'] = nemp
    ctx.cov['base_protocols'] = len(pool) - skipped
    probes(ctx, 'C08')


CHECKS['C08'] = c08

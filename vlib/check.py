"""Check framework: context, verdicts, known-findings triage, evidence and replay writers."""
import collections
import hashlib
import json
import os
import sys
import time
import traceback

from . import tools

VERIF = tools.VERIF
OUT = os.environ.get('VERIF_OUT_DIR', VERIF)   # drills against a scratch copy (VERIF_REPO) write their evidence/replays elsewhere


class Ctx:
    def __init__(self, prop, tier, seed):
        self.prop = prop
        self.tier = tier
        self.seed = seed
        self.t0 = time.time()
        self.scr = tools.Scratch(prefix='verif-%s-' % prop)
        self.violations = []       # dicts: {'key':..., 'what':..., 'replay': path}
        self.known = []            # (finding id, what)
        self.inconclusive = []     # reasons
        self.notes = []
        self.cov = {'evaluations': 0, 'distinct_nontrivial': 0, 'rule': '', 'samples': []}
        self.distinct = set()
        self.counters = collections.Counter()
        self.level = 'exploration'
        self.assumptions = []
        self._vapi = None
        self._cli = None
        self._so = None
        self.findings_db = load_findings()
        import shutil
        shutil.rmtree(os.path.join(OUT, 'replays', prop), ignore_errors=True)   # replays of earlier runs are stale
        self.finding_hits = collections.Counter()
        self.finding_excluded = collections.Counter()

    # ---- lazily built artefacts (always from the current working tree of /repo)
    @property
    def vapi(self):
        if self._vapi is None:
            b = tools.build_vapi(self.scr)
            self._vapi = tools.Vapi(b, self.scr)
        return self._vapi

    def new_vapi(self, name):
        self.vapi
        return tools.Vapi(self._vapi.bin, self.scr, name=name)

    @property
    def cli(self):
        if self._cli is None:
            self._cli = tools.build_cli(self.scr)
        return self._cli

    @property
    def so(self):
        if self._so is None:
            self._so = tools.build_shared(self.scr)
        return self._so

    # ---- verdict plumbing
    def evaluated(self, n=1, key=None, nontrivial=True):
        self.cov['evaluations'] += n
        if key is not None and nontrivial:
            self.distinct.add(key)

    def sample(self, s, cap=6):
        if len(self.cov['samples']) < cap:
            self.cov['samples'].append(s)

    def violation(self, key, what, replay_obj):
        """record an unexplained violation with a replay file."""
        for v in self.violations:
            if v['key'] == key:
                v['count'] += 1
                return
        rdir = os.path.join(OUT, 'replays', self.prop)
        os.makedirs(rdir, exist_ok=True)
        h = hashlib.sha256(repr(key).encode()).hexdigest()[:12]
        path = os.path.join(rdir, '%s-%s.json' % (self.prop, h))
        replay_obj = dict(replay_obj)
        replay_obj.update({'property': self.prop, 'tier': self.tier, 'seed': self.seed, 'key': repr(key), 'what': what})
        with open(path, 'w') as f:
            json.dump(replay_obj, f, indent=1, default=repr)
        self.violations.append({'key': key, 'what': what, 'replay': path, 'count': 1})

    def known_finding(self, fid, what):
        for k in self.known:
            if k[0] == fid:
                return
        self.known.append((fid, what))

    def inconc(self, reason):
        if reason not in self.inconclusive:
            self.inconclusive.append(reason)

    def finish(self):
        if self._vapi:
            self._vapi.stop()
        wall = time.time() - self.t0
        self.cov['distinct_nontrivial'] = len(self.distinct)
        cov = dict(self.cov)
        cov['counters'] = dict(self.counters)
        cov['known_findings_reproduced'] = [k[0] for k in self.known]
        cov['known_findings_excluded_cases'] = dict(self.finding_excluded)
        cov['inconclusive'] = self.inconclusive
        if self.notes:
            cov['notes'] = self.notes
        ev = {'property_id': self.prop, 'tier': self.tier, 'seed': self.seed, 'level': self.level, 'coverage': cov,
              'assumptions': self.assumptions, 'wall_s': round(wall, 2), 'violations': len(self.violations)}
        os.makedirs(os.path.join(OUT, 'evidence'), exist_ok=True)
        with open(os.path.join(OUT, 'evidence', self.prop + '.json'), 'w') as f:
            json.dump(ev, f, indent=1, default=repr)
        for fid, what in self.known:
            print('KNOWN-FINDING: property=%s %s [%s]' % (self.prop, what, fid))
        for v in self.violations:
            print('VIOLATION property=%s replay=%s' % (self.prop, v['replay']))
            print('  what: %s (x%d)' % (v['what'][:400], v['count']))
        for r in self.inconclusive:
            print('INCONCLUSIVE property=%s reason=%s' % (self.prop, r))
        print('%s %s seed=%d: evaluations=%d distinct=%d violations=%d known=%d inconclusive=%d wall=%.1fs' % (
            self.prop, self.tier, self.seed, cov['evaluations'], cov['distinct_nontrivial'], len(self.violations), len(self.known), len(self.inconclusive), wall))
        if not os.environ.get('VERIF_KEEP'):
            self.scr.close()
        else:
            print('scratch kept at', self.scr.dir)
        if self.violations:
            return 1
        if self.inconclusive or cov['evaluations'] == 0:
            if cov['evaluations'] == 0:
                print('INCONCLUSIVE property=%s reason=no evaluations were made' % self.prop)
            return 2
        return 0


# ------------------------------------------------------------------------------- known findings

def load_findings():
    p = os.path.join(VERIF, 'known_findings.json')
    if not os.path.exists(p):
        return []
    with open(p) as f:
        return json.load(f).get('findings', [])


def finding_applies(fd, prop, lang, feats):
    """does open finding fd cover a case of (property, language, feature set)?"""
    if fd.get('status') != 'open':
        return False
    if prop not in fd.get('properties', []):
        return False
    if fd.get('lang') and lang not in fd['lang']:
        return False
    when = fd.get('when')
    if not when:
        return True
    for conj in when:
        if all((a[1:] not in feats) if a.startswith('!') else (a in feats) for a in conj):
            return True
    return False


def applicable(db, prop, lang, feats):
    return [fd for fd in db if finding_applies(fd, prop, lang, feats)]


def symptom_matches(fd, cls, detail=''):
    sy = fd.get('symptoms')
    if not sy:
        return True
    for s in sy:
        if s == cls or (s.endswith('*') and cls.startswith(s[:-1])):
            pat = fd.get('detail_contains')
            if pat and not any(p in (detail or '') for p in pat):
                continue
            # per-symptom narrowing: the recorded defect produces these tool-chain messages and no others
            pat = (fd.get('detail_by_symptom') or {}).get(cls)
            if pat and not any(p in (detail or '') for p in pat):
                continue
            return True
    return False


def triage_log(fid, prop, lang, tag, cls, what):
    """dev-time aid: VERIF_TRIAGE_LOG=<file> lists every failure an open finding explained (used to narrow findings)."""
    p = os.environ.get('VERIF_TRIAGE_LOG')
    if p:
        with open(p, 'a') as f:
            f.write(json.dumps([fid, prop, lang, tag, cls, (what or '')[:600]]) + '\n')


def main(checks):
    if len(sys.argv) < 3:
        print('usage: check <ID> quick|thorough')
        return 2
    prop, tier = sys.argv[1], sys.argv[2]
    if prop == 'replay':
        return replay(sys.argv[2])
    seed = int(os.environ.get('VERIF_SEED', '1') or '1')
    tier = os.environ.get('VERIF_TIER', tier) or tier
    if prop not in checks:
        print('unknown check', prop)
        return 2
    ctx = Ctx(prop, tier, seed)
    try:
        checks[prop](ctx)
    except tools.BuildError as e:
        # /repo (or the harness against it) does not build: nothing was observed
        ctx.inconc('build failed: ' + str(e)[:600].replace('\n', ' | '))
    except Exception as e:   # harness fault: never a violation
        traceback.print_exc()
        ctx.inconc('harness exception: %r' % (e,))
    return ctx.finish()


def replay(path):
    with open(path) as f:
        r = json.load(f)
    print(json.dumps(r, indent=1)[:6000])
    print('replay: re-run `bin/check %s %s` with VERIF_SEED=%s to reproduce; the case above is self-contained (DSL text, message, observed vs expected).' % (r.get('property'), r.get('tier'), r.get('seed')))
    return 0

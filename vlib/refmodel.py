"""Reference wire model: deterministic encoder + layouter written from the property statements.

Never touches fin-protoc's parser/model.  Message values:
  num int types: python int in the declared domain; f32/f64: python int = IEEE bit pattern
  char: int 0..127;  fix/dyn: str;  ref/inline: dict name->value;  match: (packet_name, dict)
  len/cksum: int (caller-supplied, overwritten on the wire where the property says so)
  repeat: list
"""
import struct
import zlib

from .spec import WIDTH

REGISTERED_ALGOS = ('SUM8', 'CRC16', 'CRC32', 'CRC64', 'Xor8', 'Add16', 'Mix32', 'Mix64')   # names are case-sensitive
ALGO_WIDTH = {'SUM8': 1, 'CRC16': 2, 'CRC32': 4, 'CRC64': 8}
ALGO_FOR_WIDTH = {1: 'SUM8', 2: 'CRC16', 4: 'CRC32', 8: 'CRC64'}
ALGO_MIXED_FOR_WIDTH = {1: 'Xor8', 2: 'Add16', 4: 'Mix32', 8: 'Mix64'}


def algo(name, data, width):
    """the stand-in checksum services' definition (every runtime implements exactly this)."""
    mask = (1 << (8 * width)) - 1
    c = zlib.crc32(bytes(data)) & 0xffffffff
    if name not in REGISTERED_ALGOS:
        return None
    if name == 'SUM8':
        return sum(data) & 0xff & mask
    if name == 'CRC16':
        return c & 0xffff & mask
    if name == 'CRC32':
        return c & mask
    if name == 'CRC64':
        return ((c << 32) | (c ^ 0xffffffff)) & mask
    if name == 'Xor8':
        x = 0
        for b in bytes(data):
            x ^= b
        return x & mask
    if name == 'Add16':
        return sum(data) & 0xffff & mask
    if name == 'Mix32':
        return (c ^ 0x5a5a5a5a) & mask
    if name == 'Mix64':
        return (((c << 32) | c) ^ 0x0123456789abcdef) & mask
    return None


def enc_int(v, width, le):
    v &= (1 << (8 * width)) - 1
    return v.to_bytes(width, 'little' if le else 'big')


class LenOverflow(ValueError):
    pass


class Layout:
    def __init__(self):
        self.items = []   # dicts: path, off, len, kind ('leaf'|'strlen'|'listlen'), field kind, value

    def add(self, path, off, ln, kind, fkind, value=None, owner=None, fname=None):
        self.items.append({'path': path, 'off': off, 'len': ln, 'kind': kind, 'fkind': fkind, 'value': value,
                           'owner': owner, 'fname': fname})

    def locate(self, off):
        # an item that really occupies the byte wins; an empty item (zero-length string / list body) sitting at the
        # same offset as the next field is only named when nothing else covers the offset
        for empty in (False, True):
            for it in self.items:
                if (it['len'] == 0) == empty and it['off'] <= off < it['off'] + max(it['len'], 1):
                    return '%s(%s,%s) @%d+%d' % (it['path'], it['kind'], it['fkind'], it['off'], it['len'])
        return 'past end / unattributed offset %d' % off


class Encoder:
    def __init__(self, proto, registered=REGISTERED_ALGOS):
        self.proto = proto
        self.cfg = proto.cfg()
        self.registered = registered
        self.cksum_inputs = []   # (path, bytes handed to the checksum algo)

    def encode_root(self, msg, packet=None):
        p = packet or self.proto.root
        out = bytearray()
        lay = Layout()
        decoded = self.enc_packet(p, msg, out, lay, p.name)
        return bytes(out), lay, decoded

    def enc_scalar(self, f, v, out, lay, path, owner=None):
        """f effective field of kind num/char/fix/dyn; returns decoded logical value."""
        le = self.cfg['le']
        k = f.kind
        off = len(out)
        if k == 'num':
            w = WIDTH[f.ntype]
            out += enc_int(v, w, le)
            lay.add(path, off, w, 'leaf', 'num:' + f.ntype, v, owner, f.name)
            return v
        if k == 'char':
            out += bytes([v & 0xff])
            lay.add(path, off, 1, 'leaf', 'char', v, owner, f.name)
            return v
        if k == 'fix':
            side, pb = self.proto.eff_pad(f)
            b = v.encode('utf-8')
            if len(b) > f.n:
                raise ValueError('fixed string too long for %s' % path)
            pad = pb * (f.n - len(b))
            out += (pad + b) if side == 'left' else (b + pad)
            lay.add(path, off, f.n, 'leaf', 'fix', v, owner, f.name)
            return v
        if k == 'dyn':
            b = v.encode('utf-8')
            w = WIDTH[self.cfg['sp']]
            out += enc_int(len(b), w, le)
            lay.add(path, off, w, 'strlen', 'dyn', len(b), owner, f.name)
            out += b
            lay.add(path, off + w, len(b), 'leaf', 'dyn', v, owner, f.name)
            return v
        raise ValueError(k)

    def enc_one(self, p, f, v, out, lay, path, owner=None):
        e = self.proto.eff(f)
        k = e.kind
        if k in ('num', 'char', 'fix', 'dyn'):
            return self.enc_scalar(e, v, out, lay, path, owner)
        if k == 'ref':
            return self.enc_packet(self.proto.packet(f.packet), v, out, lay, path)
        if k == 'inline':
            return self.enc_fields(e.fields, v, out, lay, path, None, owner=f.name)
        if k == 'match':
            pname, body = v
            return (pname, self.enc_packet(self.proto.packet(pname), body, out, lay, path + '<' + pname + '>'))
        raise ValueError(k)

    def enc_packet(self, p, msg, out, lay, path):
        return self.enc_fields(p.fields, msg, out, lay, path, p, owner=p.name)

    def enc_fields(self, fields, msg, out, lay, path, p, owner=None):
        le = self.cfg['le']
        decoded = {}
        pending_len = {}   # target name -> (lenfield, offset, width)
        for f in fields:
            fp = path + '.' + f.name
            v = msg.get(f.name)
            e = self.proto.eff(f)
            if f.kind == 'len':
                w = WIDTH[e.ntype]
                pending_len[f.target] = (f, len(out), w)
                out += b'\x00' * w
                continue
            if f.kind == 'cksum':
                w = WIDTH[e.ntype]
                val = v
                if f.algo in self.registered:
                    self.cksum_inputs.append((fp, bytes(out)))
                    val = algo(f.algo, out, w)
                off = len(out)
                out += enc_int(val, w, le)
                lay.add(fp, off, w, 'leaf', 'cksum:' + e.ntype, val, owner, f.name)
                decoded[f.name] = val & ((1 << (8 * w)) - 1)
                continue
            start = len(out)
            if f.repeat:
                w = WIDTH[self.cfg['ap']]
                out += enc_int(len(v), w, le)
                lay.add(fp, start, w, 'listlen', e.kind, len(v), owner, f.name)
                dv = []
                for i, x in enumerate(v):
                    dv.append(self.enc_one(p, f, x, out, lay, '%s[%d]' % (fp, i), owner))
                decoded[f.name] = dv
            else:
                decoded[f.name] = self.enc_one(p, f, v, out, lay, fp, owner)
            if f.name in pending_len:
                lf, off, w = pending_len.pop(f.name)
                n = len(out) - start
                if n >= 1 << (8 * w):
                    raise LenOverflow('%s: target of %d bytes does not fit %d-byte length field' % (path, n, w))
                out[off:off + w] = enc_int(n, w, le)
                lay.add(path + '.' + lf.name, off, w, 'leaf', 'len:' + self.proto.eff(lf).ntype, n, owner, lf.name)
                decoded[lf.name] = n & ((1 << (8 * w)) - 1)
        # keep declaration order in decoded
        return {f.name: decoded[f.name] for f in fields}


# ---------------------------------------------------------------- canonical logical values

def norm_int(v, ntype):
    w = WIDTH[ntype]
    v &= (1 << (8 * w)) - 1
    return v


def canon(proto, fields, msg):
    """canonical comparable form of a (decoded/expected) message dict."""
    out = []
    for f in fields:
        e = proto.eff(f)
        v = msg.get(f.name) if isinstance(msg, dict) else None

        def one(x):
            k = e.kind
            if k in ('num', 'len', 'cksum'):
                return ('i', norm_int(x if x is not None else 0, e.ntype))
            if k == 'char':
                return ('i', (x or 0) & 0xff)
            if k in ('fix', 'dyn'):
                return ('s', x or '')
            if k == 'ref':
                return ('o', canon(proto, proto.packet(f.packet).fields, x)) if x is not None else ('null',)
            if k == 'inline':
                return ('o', canon(proto, e.fields, x)) if x is not None else ('null',)
            if k == 'match':
                if x is None:
                    return ('null',)
                pn, body = x
                return ('m', pn, canon(proto, proto.packet(pn).fields, body))
            raise ValueError(k)
        if f.repeat:
            out.append((f.name, ('l', tuple(one(x) for x in (v or [])))))
        else:
            out.append((f.name, one(v)))
    return tuple(out)


# ---------------------------------------------------------------- driver dump parser

class DumpError(Exception):
    pass


def parse_dump(s):
    """parse the tiny dump grammar emitted by all drivers into python values:
       INT -> int ; fHEX -> ('f',bits) ; sHEX -> str ; [..] -> list ; {a=v;..} -> dict ; null -> None ; <P>{..} -> (P, dict)"""
    pos = 0
    n = len(s)

    def val():
        nonlocal pos
        if pos >= n:
            raise DumpError('eof')
        c = s[pos]
        if c == '[':
            pos += 1
            out = []
            if s[pos] == ']':
                pos += 1
                return out
            while True:
                out.append(val())
                if s[pos] == ',':
                    pos += 1
                    continue
                if s[pos] == ']':
                    pos += 1
                    return out
                raise DumpError('list at %d' % pos)
        if c == '{':
            pos += 1
            d = {}
            while s[pos] != '}':
                j = s.index('=', pos)
                name = s[pos:j]
                pos = j + 1
                d[name] = val()
                if s[pos] != ';':
                    raise DumpError('obj at %d' % pos)
                pos += 1
            pos += 1
            return d
        if c == '<':
            j = s.index('>', pos)
            pn = s[pos + 1:j]
            pos = j + 1
            if s.startswith('null', pos):
                pos += 4
                return (pn, None)
            return (pn, val())
        if s.startswith('null', pos):
            pos += 4
            return None
        if c == 's':
            j = pos + 1
            while j < n and s[j] in '0123456789abcdefABCDEF':
                j += 1
            hx = s[pos + 1:j]
            pos = j
            return bytes.fromhex(hx).decode('utf-8', 'surrogateescape')
        if c == 'f':
            j = pos + 1
            while j < n and s[j] in '0123456789abcdefABCDEF':
                j += 1
            bits = int(s[pos + 1:j], 16)
            pos = j
            return bits
        j = pos
        if j < n and s[j] == '-':
            j += 1
        while j < n and s[j].isdigit():
            j += 1
        if j == pos:
            raise DumpError('unexpected %r at %d' % (s[pos:pos + 10], pos))
        v = int(s[pos:j])
        pos = j
        return v
    v = val()
    if pos != n:
        raise DumpError('trailing %r' % s[pos:pos + 20])
    return v

"""Oracles over lane outputs for the wire properties (C01-C06)."""
from . import refmodel


def first_diff(a, b):
    n = min(len(a), len(b))
    for i in range(n):
        if a[i] != b[i]:
            return i
    return n if len(a) != len(b) else -1


class Finding:
    """one observed failure of an oracle (before known-finding triage)."""

    def __init__(self, prop, lang, item, cls, detail, case=None, where=None):
        self.prop = prop
        self.lang = lang
        self.item = item
        self.cls = cls          # symptom class, e.g. wrong-bytes, encode-error, decode-mismatch, crash, build-error
        self.detail = detail
        self.case = case
        self.where = where      # e.g. field kind where the first wrong byte lies

    def key(self):
        return (self.prop, self.lang, self.item.tag, self.cls, self.where)

    def __repr__(self):
        return 'Finding(%s %s %s %s where=%s case=%s: %s)' % (self.prop, self.lang, self.item.tag, self.cls, self.where, self.case, str(self.detail)[:300])


def check_encode(item, lang, out, enc_ids, prop='C01'):
    """C01: emitted encoder bytes == reference bytes."""
    fs = []
    n_ok = 0
    for i in enc_ids:
        refb, lay, dec, _ = item.ref[i]
        got = out.enc.get(i)
        if got is None:
            fs.append(Finding(prop, lang, item, 'no-output', 'no ENC line for message %d (crash=%r)' % (i, out.crash and out.crash[:2]), case=i))
            continue
        if isinstance(got, tuple):
            fs.append(Finding(prop, lang, item, 'encode-error', got[1], case=i))
            continue
        gb = bytes.fromhex(got)
        if gb != refb:
            d = first_diff(gb, refb)
            where = lay.locate(d)
            fs.append(Finding(prop, lang, item, 'wrong-bytes', 'first differing byte %d lies in %s; got %s want %s' % (
                d, where, gb[max(0, d - 4):d + 8].hex(), refb[max(0, d - 4):d + 8].hex()), case=i, where=where.split(' @')[0].split('(')[-1].rstrip(')')))
        else:
            n_ok += 1
    return fs, n_ok


def decoded_canon(item, dumpstr):
    v = refmodel.parse_dump(dumpstr)
    return refmodel.canon(item.proto, item.proto.root.fields, v)


def canon_diff(a, b, path=''):
    """first difference between two canon() trees, as text."""
    if type(a) is not type(b):
        return '%s: %r != %r' % (path, a, b)
    if isinstance(a, tuple):
        if len(a) != len(b):
            return '%s: length %d != %d (%r vs %r)' % (path, len(a), len(b), str(a)[:120], str(b)[:120])
        for i, (x, y) in enumerate(zip(a, b)):
            d = canon_diff(x, y, path + ('.' + x[0] if isinstance(x, tuple) and x and isinstance(x[0], str) and len(x[0]) > 1 else '[%d]' % i))
            if d:
                return d
        return None
    if a != b:
        return '%s: got %r want %r' % (path, a, b)
    return None


def check_decode(item, lang, out, dec_cases_meta, prop='C02'):
    """C02: decode(ref bytes + suffix) == message; consumed exactly; re-encode == bytes.
    dec_cases_meta: cid -> (msg index, suffix bytes)"""
    fs = []
    n_ok = 0
    for cid, (i, suffix) in dec_cases_meta.items():
        refb, lay, dec, _ = item.ref[i]
        want = refmodel.canon(item.proto, item.proto.root.fields, dec)
        got = out.dec.get(cid)
        if got is None:
            fs.append(Finding(prop, lang, item, 'no-output', 'no DEC line for case %s (crash=%r)' % (cid, out.crash and out.crash[:2]), case=cid))
            continue
        if got[0] == 'ERR':
            fs.append(Finding(prop, lang, item, 'decode-error', got[1], case=cid))
            continue
        rem, dump = got
        try:
            gc = decoded_canon(item, dump)
        except Exception as e:
            fs.append(Finding(prop, lang, item, 'dump-unparsable', '%r: %s' % (e, dump[:200]), case=cid))
            continue
        bad = False
        d = canon_diff(gc, want)
        if d:
            fs.append(Finding(prop, lang, item, 'decode-mismatch', d, case=cid, where=d.split(':')[0]))
            bad = True
        if rem != len(suffix):
            fs.append(Finding(prop, lang, item, 'wrong-consumption', 'unread bytes %d, want %d' % (rem, len(suffix)), case=cid))
            bad = True
        re = out.reenc.get(cid)
        if re is None or isinstance(re, tuple):
            fs.append(Finding(prop, lang, item, 'reencode-error', repr(re), case=cid))
            bad = True
        elif bytes.fromhex(re) != refb:
            dd = first_diff(bytes.fromhex(re), refb)
            fs.append(Finding(prop, lang, item, 'reencode-differs', 'first differing byte %d in %s' % (dd, lay.locate(dd)), case=cid))
            bad = True
        if not bad:
            n_ok += 1
    return fs, n_ok

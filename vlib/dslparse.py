"""Independent recognizer for PacketDsl written from grammar/PacketDsl.g4's parser rules.  It decides whether a text is
in the language of the grammar (all alternatives explored: every rule maps a start position to the SET of possible end
positions), on top of the independent lexer.  It never calls fin-protoc.  Used by the formatter checks to decide
"syntactically invalid" without asking the code under test."""
from . import dsllex

BASIC = {'char', 'uint8', 'u8', 'uint16', 'u16', 'uint32', 'u32', 'uint64', 'u64', 'int8', 'i8', 'int16', 'i16', 'int32', 'i32',
         'int64', 'i64', 'float32', 'f32', 'float64', 'f64'}
KEYWORDS = BASIC | {'options', 'root', 'packet', 'repeat', 'MetaData', 'match', 'as', 'true', 'false', 'string'}


class Undecided(Exception):
    """the text holds characters outside every token rule: what the generated lexer does with them is not modelled."""


class P:
    def __init__(self, text):
        try:
            lx = dsllex.lex(text)
        except dsllex.LexError as e:
            raise Undecided(str(e))
        self.t = [(k, s) for k, s, _ in lx if k != 'COMMENT']
        self.n = len(self.t)

    # ---- terminals: each returns the set of end positions
    def lit(self, i, s):
        return {i + 1} if i < self.n and self.t[i][1] == s and self.t[i][0] in ('PUNCT', 'LIT', 'IDENT') else set()

    def kind(self, i, k):
        return {i + 1} if i < self.n and self.t[i][0] == k else set()

    def ident(self, i):
        return {i + 1} if i < self.n and self.t[i][0] == 'IDENT' and self.t[i][1] not in KEYWORDS else set()

    # ---- combinators
    @staticmethod
    def seq(starts, *fs):
        cur = set(starts)
        for f in fs:
            nxt = set()
            for i in cur:
                nxt |= f(i)
            cur = nxt
            if not cur:
                break
        return cur

    @staticmethod
    def opt(f):
        return lambda i: {i} | f(i)

    @staticmethod
    def star(f):
        def g(i):
            seen = {i}
            work = [i]
            while work:
                j = work.pop()
                for k in f(j):
                    if k not in seen:
                        seen.add(k)
                        work.append(k)
            return seen
        return g

    @staticmethod
    def plus(f):
        def g(i):
            out = set()
            for j in f(i):
                out |= P.star(f)(j)
            return out
        return g

    def L(self, s):
        return lambda i: self.lit(i, s)

    def K(self, k):
        return lambda i: self.kind(i, k)

    # ---- rules
    def type_(self, i):
        out = set()
        if i < self.n and self.t[i][0] == 'IDENT' and self.t[i][1] in BASIC:
            out.add(i + 1)
        out |= self.lit(i, 'string') | self.lit(i, 'char[]')
        for b in ('char[', 'zchar['):
            out |= self.seq({i}, self.L(b), self.K('DIGITS'), self.L(']'))
        return out

    def value(self, i):
        return self.type_(i) | self.kind(i, 'STRING') | self.kind(i, 'DIGITS') | self.kind(i, 'PADCHAR') | self.lit(i, 'true') | self.lit(i, 'false')

    def option_decl(self, i):
        return self.seq({i}, self.ident, self.L('='), self.value, self.opt(self.L(';')))

    def option_def(self, i):
        return self.seq({i}, self.L('options'), self.L('{'), self.star(self.option_decl), self.L('}'))

    def length_of(self, i):
        return self.seq({i}, self.L('@lengthOf('), self.ident, self.L(')'))

    def calc_from(self, i):
        return self.seq({i}, self.L('@calculatedFrom('), self.K('STRING'), self.L(')'))

    def tag_attr(self, i):
        return self.seq({i}, self.L('@tag('), self.K('DIGITS'), self.L(')'))

    def pad_attr(self, i):
        return self.seq({i}, lambda j: self.lit(j, '@leftPad') | self.lit(j, '@rightPad'), self.L('('), self.opt(self.K('PADCHAR')), self.L(')'))

    def field_attr(self, i):
        return self.length_of(i) | self.calc_from(i) | self.tag_attr(i) | self.pad_attr(i)

    def meta_decl(self, i):
        return self.seq({i}, self.type_, self.ident, self.opt(self.K('DOC')), self.L(','))

    def ref_meta_decl(self, i):
        return self.seq({i}, self.ident, self.ident, self.opt(self.K('DOC')), self.L(','))

    def meta_def(self, i):
        return self.seq({i}, self.L('MetaData'), self.ident, self.L('{'), self.star(lambda j: self.meta_decl(j) | self.ref_meta_decl(j)), self.L('}'))

    def list_(self, i):
        item = lambda j: self.kind(j, 'DIGITS') | self.kind(j, 'STRING')
        return self.seq({i}, self.L('['), item, self.star(lambda j: self.seq({j}, self.L(','), item)), self.L(']'))

    def match_pair(self, i):
        return self.seq({i}, lambda j: self.kind(j, 'DIGITS') | self.kind(j, 'STRING') | self.list_(j), self.L(':'), self.ident, self.opt(self.L(',')))

    def match_decl(self, i):
        return self.seq({i}, self.L('match'), self.ident, self.L('as'), self.ident, self.L('{'), self.plus(self.match_pair), self.L('}'))

    def iner_decl(self, i):
        return self.seq({i}, self.ident, self.L('{'), self.plus(self.field_def), self.L('}'))

    def field_def(self, i):
        rep = self.opt(self.L('repeat'))
        out = self.seq({i}, rep, self.iner_decl, self.L(','))
        out |= self.seq({i}, rep, self.meta_decl)
        out |= self.seq({i}, rep, self.ident, self.opt(self.ident), self.opt(self.K('DOC')), self.L(','))
        out |= self.seq({i}, self.opt(self.type_), self.ident, self.length_of, self.opt(self.K('DOC')), self.L(','))
        out |= self.seq({i}, self.opt(self.type_), self.ident, self.calc_from, self.opt(self.K('DOC')), self.L(','))
        out |= self.seq({i}, self.match_decl, self.L(','))
        return out

    def field_with_attr(self, i):
        return self.seq({i}, self.star(self.field_attr), self.field_def)

    def packet_def(self, i):
        return self.seq({i}, self.opt(self.L('root')), self.L('packet'), self.ident, self.L('{'), self.star(self.field_with_attr), self.L('}'))

    def start(self):
        ends = self.star(lambda j: self.packet_def(j) | self.meta_def(j) | self.option_def(j))(0)
        return self.n in ends


def valid(text):
    """True / False: the text is / is not a sentence of the grammar.  Raises Undecided for untokenizable input."""
    return P(text).start()

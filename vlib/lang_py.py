"""Python lane: run the emitted Python codec against the stand-in runtime."""
import os
import sys

from . import lanes, tools
from .spec import WIDTH

RUNTIME = os.path.join(tools.VERIF, 'runtimes', 'python')
NAME = 'python'


def py_str(s):
    return "_s('%s')" % s.encode('utf-8').hex()


class Gen:
    def __init__(self, item):
        self.it = item
        self.p = item.proto
        self.lines = []
        self.tmp = 0

    def cls(self, name):
        return 'M.' + self.it.camel(name)

    # ----- construction
    def build_fields(self, var, fields, msg, ind):
        L = self.lines
        for f in fields:
            e = self.p.eff(f)
            attr = '%s.%s' % (var, self.it.snake(f.name))
            v = msg[f.name]
            if f.repeat:
                lv = self.newtmp()
                L.append('%s%s = []' % (ind, lv))
                for x in v:
                    L.append('%s%s.append(%s)' % (ind, lv, self.value(f, e, x, ind)))
                L.append('%s%s = %s' % (ind, attr, lv))
            else:
                L.append('%s%s = %s' % (ind, attr, self.value(f, e, v, ind)))

    def newtmp(self):
        self.tmp += 1
        return 't%d' % self.tmp

    def value(self, f, e, v, ind):
        k = e.kind
        if k in ('num', 'len', 'cksum'):
            if e.ntype == 'f32':
                return '_f32(0x%x)' % v
            if e.ntype == 'f64':
                return '_f64(0x%x)' % v
            return str(v)
        if k == 'char':
            return str(v)
        if k in ('fix', 'dyn'):
            return py_str(v)
        if k == 'ref':
            t = self.newtmp()
            self.lines.append('%s%s = %s()' % (ind, t, self.cls(f.packet)))
            self.build_fields(t, self.p.packet(f.packet).fields, v, ind)
            return t
        if k == 'inline':
            t = self.newtmp()
            self.lines.append('%s%s = %s()' % (ind, t, self.cls(f.name)))
            self.build_fields(t, e.fields, v, ind)
            return t
        if k == 'match':
            pn, body = v
            t = self.newtmp()
            self.lines.append('%s%s = %s()' % (ind, t, self.cls(pn)))
            self.build_fields(t, self.p.packet(pn).fields, body, ind)
            return t
        raise ValueError(k)

    # ----- dumping
    def dump_funcs(self):
        L = self.lines
        done = set()

        def dump_fields(tname, fields):
            if tname in done:
                return
            done.add(tname)
            subs = []
            L.append('def dump_%s(o):' % tname)
            L.append('    if o is None: return "null"')
            L.append('    r = "{"')
            for f in fields:
                e = self.p.eff(f)
                acc = 'o.%s' % self.it.snake(f.name)
                if f.repeat:
                    L.append('    r += "%s=" + ("null" if %s is None else "[" + ",".join(%s for x in %s) + "]") + ";"' % (f.name, acc, self.dump_one(f, e, 'x', subs), acc))
                else:
                    L.append('    r += "%s=" + %s + ";"' % (f.name, self.dump_one(f, e, acc, subs)))
            L.append('    return r + "}"')
            L.append('')
            for nm, fl in subs:
                dump_fields(nm, fl)
        self._dump_fields = dump_fields
        for pk in self.p.packets:
            dump_fields(pk.name, pk.fields)
        # dynamic dispatch for match payloads
        L.append('def dump_dyn(o):')
        L.append('    if o is None: return "null"')
        for pk in self.p.packets:
            L.append('    if type(o) is %s: return "<%s>" + dump_%s(o)' % (self.cls(pk.name), pk.name, pk.name))
        L.append('    return "<?" + type(o).__name__ + ">null"')
        L.append('')

    def dump_one(self, f, e, acc, subs):
        k = e.kind
        if k in ('num', 'len', 'cksum'):
            if e.ntype == 'f32':
                return '_df32(%s)' % acc
            if e.ntype == 'f64':
                return '_df64(%s)' % acc
            return '_di(%s)' % acc
        if k == 'char':
            return '_di(%s)' % acc
        if k in ('fix', 'dyn'):
            return '_ds(%s)' % acc
        if k == 'ref':
            return 'dump_%s(%s)' % (f.packet, acc)
        if k == 'inline':
            subs.append((f.name, e.fields))
            return 'dump_%s(%s)' % (f.name, acc)
        if k == 'match':
            return 'dump_dyn(%s)' % acc
        raise ValueError(k)

    def driver(self, emitted_dir):
        it = self.it
        root = self.p.root
        L = self.lines
        L.append('import sys, struct, json')
        L.append('sys.path.insert(0, %r)' % RUNTIME)
        L.append('sys.path.insert(0, %r)' % emitted_dir)
        L.append('import vtrace')
        L.append('from bytebuf import ByteBuf')
        L.append('import %s as M' % it.snake(root.name))
        L.append(HELPERS)
        for i, (shape, msg) in enumerate(it.msgs):
            L.append('def build_%d():' % i)
            L.append('    r = %s()' % self.cls(root.name))
            self.build_fields('r', root.fields, msg, '    ')
            L.append('    return r')
            L.append('')
        L.append('BUILDERS = [%s]' % ', '.join('build_%d' % i for i in range(len(it.msgs))))
        self.dump_funcs()
        L.append('ROOT = %s' % self.cls(root.name))
        L.append('DUMP_ROOT = dump_%s' % root.name)
        L.append(MAIN)
        return '\n'.join(L) + '\n'


HELPERS = r'''
def _s(h): return bytes.fromhex(h).decode('utf-8')
def _f32(b): return struct.unpack('>f', struct.pack('>I', b))[0]
def _f64(b): return struct.unpack('>d', struct.pack('>Q', b))[0]
def _di(v):
    if v is None: return 'null'
    return str(int(v))
def _df32(v): return 'f%08x' % struct.unpack('>I', struct.pack('>f', v))[0]
def _df64(v): return 'f%016x' % struct.unpack('>Q', struct.pack('>d', v))[0]
def _ds(v):
    if v is None: return 'null'
    return 's' + v.encode('utf-8', 'surrogateescape').hex()
def _err(e): return (type(e).__name__ + ': ' + str(e)).replace('\n', ' ')[:300]
'''

MAIN = r'''
def main():
    out = sys.stdout
    for line in open(sys.argv[1]):
        parts = line.split()
        if not parts: continue
        if parts[0] == 'E':
            i = int(parts[1])
            out.write('BEGIN E %d\n' % i); out.flush()
            vtrace.CKIN.clear(); vtrace.PATCHES.clear()
            try:
                obj = BUILDERS[i]()
                buf = ByteBuf()
                obj.encode(buf)
                out.write('ENC %d %s\n' % (i, bytes(buf.data).hex()))
            except Exception as e:
                out.write('ENCERR %d %s\n' % (i, _err(e)))
            for nm, data in vtrace.CKIN:
                out.write('CKIN %d %s %s\n' % (i, nm, data.hex()))
            for pos, size, le in vtrace.PATCHES:
                out.write('PATCH %d pos=%d size=%d le=%s\n' % (i, pos, size, le))
        elif parts[0] == 'A':
            # a connection buffer in use: two copies of message 0 are written, the first is decoded (consumed), then message i is appended
            i = int(parts[1])
            out.write('BEGIN A %d\n' % i); out.flush()
            try:
                buf = ByteBuf()
                try:
                    BUILDERS[0]().encode(buf); BUILDERS[0]().encode(buf)
                    ROOT().decode(buf)
                except Exception as e:
                    out.write('ENCA %d SKIP %s\n' % (i, _err(e)))
                    continue
                BUILDERS[i]().encode(buf)
                out.write('ENCA %d %s\n' % (i, bytes(buf.data[buf.read_index:]).hex()))
            except Exception as e:
                out.write('ENCA %d ERR %s\n' % (i, _err(e)))
        elif parts[0] == 'U':
            import checksum as _ck
            i = int(parts[1])
            out.write('BEGIN U %d\n' % i); out.flush()
            for _tag, _on in (('ENCU', False), ('ENCG', True)):
                _ck.ENABLED = _on
                try:
                    obj = BUILDERS[i]()
                    buf = ByteBuf()
                    obj.encode(buf)
                    out.write('%s %d %s\n' % (_tag, i, bytes(buf.data).hex()))
                except Exception as e:
                    out.write('%s %d ERR %s\n' % (_tag, i, _err(e)))
            _ck.ENABLED = True
        elif parts[0] == 'D':
            cid = parts[1]
            data = b'' if parts[2] == '-' else bytes.fromhex(parts[2])
            out.write('BEGIN D %s\n' % cid); out.flush()
            try:
                buf = ByteBuf(data)
                obj = ROOT()
                obj.decode(buf)
                out.write('DEC %s %d %s\n' % (cid, len(buf.data) - buf.read_index, DUMP_ROOT(obj)))
            except Exception as e:
                out.write('DECERR %s %s\n' % (cid, _err(e)))
                continue
            try:
                b2 = ByteBuf()
                obj.encode(b2)
                out.write('REENC %s %s\n' % (cid, bytes(b2.data).hex()))
            except Exception as e:
                out.write('REENCERR %s %s\n' % (cid, _err(e)))
        elif parts[0] == 'R':
            cid = parts[1]
            a = b'' if parts[2] == '-' else bytes.fromhex(parts[2])
            b = b'' if parts[3] == '-' else bytes.fromhex(parts[3])
            out.write('BEGIN R %s\n' % cid); out.flush()
            obj = ROOT()
            try:
                obj.decode(ByteBuf(a))
            except Exception as e:
                pass
            try:
                buf = ByteBuf(b)
                obj.decode(buf)
                out.write('DEC %s %d %s\n' % (cid, len(buf.data) - buf.read_index, DUMP_ROOT(obj)))
            except Exception as e:
                out.write('DECERR %s %s\n' % (cid, _err(e)))
        out.flush()
    out.write('TRACE ' + json.dumps(dict(vtrace.COUNTS)) + '\n')
    out.write('DONE\n')
main()
'''


def emitted_check(item, work):
    """C07-style observation for Python: write emitted files, byte-compile and import the module against the runtime.
    returns (ok, log)"""
    d = os.path.join(work, 'py', item.tag)
    os.makedirs(d, exist_ok=True)
    for name, data in item.files['python'].items():
        p = os.path.join(d, name)
        os.makedirs(os.path.dirname(p), exist_ok=True)
        with open(p, 'wb') as f:
            f.write(data)
    root = item.proto.root
    mod = item.snake(root.name)
    code = ('import sys; sys.path.insert(0, %r); sys.path.insert(0, %r); import py_compile\n'
            'import glob\n'
            'for f in glob.glob(%r + "/*.py"): py_compile.compile(f, doraise=True)\n'
            'import %s\n' % (RUNTIME, d, d, mod))
    rc, text, fired = lanes.run_child([sys.executable, '-c', code], d, os.path.join(d, 'import.log'))
    return rc == 0, text, d


def run(item, work, enc_ids, dec_cases, built=None):
    out = lanes.LaneOut()
    if built is None:
        ok, log, d = emitted_check(item, work)
    else:
        ok, log, d = built
    if not ok:
        out.build = 'emitted-fail'
        out.log = log
        return out
    g = Gen(item)
    try:
        src = g.driver(d)
    except Exception as e:   # driver generation problem is the harness' fault
        out.build = 'driver-fail'
        out.log = 'driver generation: %r' % (e,)
        return out
    dp = os.path.join(d, 'vdriver.py')
    with open(dp, 'w') as f:
        f.write(src)
    cases = os.path.join(d, 'cases.txt')
    lanes.write_cases(cases, enc_ids, dec_cases)
    rc, text, fired = lanes.run_child([sys.executable, dp, cases], d, os.path.join(d, 'run.log'))
    return lanes.finish_run(out, rc, text, fired)


class Batch:
    def __init__(self, work):
        self.work = work
        self.built = {}
        self.status = {}

    def prepare(self, items, want_drivers=True):
        for it in items:
            ok, log, d = emitted_check(it, self.work)
            self.built[it.tag] = (ok, log, d)
            self.status[it.tag] = ('ok', '') if ok else ('emitted-fail', log[-1500:])

    def run(self, item, enc_ids, dec_cases):
        out = run(item, self.work, enc_ids, dec_cases, built=self.built[item.tag])
        if out.build == 'ok' and out.crash and 'vdriver.py' in out.crash[2] and ('SyntaxError' in out.crash[2] or 'IndentationError' in out.crash[2]) and out.crash[0] is None:
            out.build = 'driver-fail'
            out.log = out.crash[2]
        return out

    def run_selftests(self, items):
        res = {}
        for it in items:
            ok, log, d = self.built[it.tag]
            if not ok:
                res[it.tag] = ('build-fail', log[-800:])
                continue
            tests = [n for n in it.files['python'] if n.endswith('_test.py')]
            if not tests:
                res[it.tag] = ('no-tests', '')
                continue
            env = dict(os.environ)
            env['PYTHONPATH'] = RUNTIME + os.pathsep + d
            rc, text, fired = lanes.run_child([sys.executable, os.path.join(d, tests[0]), '-v'], d, os.path.join(d, 'selftest.log'), env=env)
            names = [l.split(' ')[0] + ':' + l.split('(')[1].split(')')[0] for l in text.split('\n') if l.startswith('test_') and '(' in l]
            if fired:
                res[it.tag] = ('watchdog', text[-500:])
            elif rc == 0 and 'OK' in text:
                res[it.tag] = ('pass', '', names)
            else:
                res[it.tag] = ('test-fail', text[-1500:], names)
        return res

"""Workload generators: protocol pool (feature matrix + random compositions) and messages."""
import random

from .spec import Field, MetaEntry, Packet, Proto, NUM_TYPES, INT_TYPES, UNS_TYPES, WIDTH

WORDS = ['Alpha', 'Bravo', 'Cargo', 'Delta', 'Echo', 'Fox', 'Gamma', 'Hotel', 'India', 'Juliet', 'Kilo', 'Lima',
         'Mike', 'Nova', 'Oscar', 'Papa', 'Quebec', 'Romeo', 'Sierra', 'Tango', 'Ultra', 'Victor', 'Whisky',
         'Xray', 'Yankee', 'Zulu']

F32_BITS = [0x00000000, 0x80000000, 0x3fc00000, 0x7f7fffff, 0x00000001, 0x7f800000, 0xff800000, 0xc2f6e979]
F64_BITS = [0x0, 0x8000000000000000, 0x3ff8000000000000, 0x7fefffffffffffff, 0x1, 0x7ff0000000000000,
            0xfff0000000000000, 0xc05edd2f1a9fbe77]

PREFIX_MAX = {'u8': 255, 'u16': 65535, 'u32': 2 ** 32 - 1, 'u64': 2 ** 64 - 1}


class Namer:
    def __init__(self, rng):
        self.rng = rng
        self.used = set()

    def fresh(self, prefix=''):
        for _ in range(1000):
            n = prefix + self.rng.choice(WORDS) + self.rng.choice(WORDS)
            if n not in self.used:
                self.used.add(n)
                return n
        raise RuntimeError('names exhausted')


def alpha_tag(prefix, i):
    """letters-only tag (digits would change the case conversions of every derived identifier)."""
    return prefix + chr(ord('a') + (i // 26) % 26) + chr(ord('a') + i % 26) + (chr(ord('a') + (i // 676) % 26) if i >= 676 else '')


def base_options(tag, extra=None):
    o = {'JavaPackage': '"vp.%s"' % tag.lower(), 'GoPackage': '"%s"' % tag.lower(), 'GoModule': '"verif/%s"' % tag.lower()}
    if extra:
        o.update(extra)
    return o


CONFIGS = [
    {},
    {'LittleEndian': 'true'},
    {'LittleEndian': 'false'},
    {'StringPrefixLenType': 'u8'},
    {'StringPrefixLenType': 'u32', 'LittleEndian': 'true'},
    {'ArrayPrefixLenType': 'u8'},
    {'ArrayPrefixLenType': 'u32', 'LittleEndian': 'true'},
    {'StringPrefixLenType': 'u8', 'ArrayPrefixLenType': 'u32'},
    {'StringPrefixLenType': 'u16', 'ArrayPrefixLenType': 'u16'},
    {'FixedStringPadChar': "'0'"},
    {'FixedStringPadChar': "'0'", 'FixedStringPadFromLeft': 'true'},
    {'FixedStringPadFromLeft': 'true', 'FixedStringPadChar': "' '"},
    {'FixedStringPadFromLeft': 'false'},
    {'FixedStringPadChar': "' '"},
    {'StringPrefixLenType': 'u64'},
    {'ArrayPrefixLenType': 'u64'},
    {'FixedStringPadChar': "'\\x00'"},
    {'FixedStringPadFromLeft': 'true'},
]


def num(name, t, **kw):
    return Field('num', name, ntype=t, **kw)


def fix(name, n, pad=None, zchar=False, **kw):
    return Field('fix', name, n=n, pad=pad, zchar=zchar, **kw)


def dyn(name, spelling='string', **kw):
    return Field('dyn', name, spelling=spelling, **kw)


def sub_packet(nm, rng, n=None, kinds=('num', 'dyn', 'fix')):
    fs = []
    for _ in range(n if n is not None else rng.randint(1, 3)):
        fs.append(simple_field(nm, rng, kinds))
    return fs


def simple_field(nm, rng, kinds=('num', 'dyn', 'fix'), repeat_p=0.0):
    k = rng.choice(kinds)
    name = nm.fresh()
    rep = rng.random() < repeat_p
    if k == 'num':
        return num(name, rng.choice(NUM_TYPES), repeat=rep, alias=rng.random() < 0.3)
    if k == 'dyn':
        return dyn(name, rng.choice(['string', 'char[]']), repeat=rep)
    if k == 'fix':
        return fix(name, rng.choice([1, 2, 4, 7, 12]), repeat=rep)
    if k == 'zchar':
        return fix(name, rng.choice([1, 3, 8]), zchar=True, repeat=rep)
    if k == 'fixpad':
        return fix(name, rng.choice([2, 5, 9]), pad=rng.choice(PADS), repeat=rep)
    raise ValueError(k)


PADS = [('left', '0'), ('right', '0'), ('left', 'sp'), ('right', 'sp'), ('right', 'nul'), ('left', 'nul'),
        ('left', None), ('right', None)]


def matrix_protos():
    """deterministic feature-matrix protocols: each field-kind atom (plain and repeat) appears in a small protocol."""
    rng = random.Random(20260929)
    out = []

    def mk(tag, fields, subs=(), options=None, metadata=None, rootname=None):
        nm = Namer(rng)
        pk = [Packet(rootname or 'Root' + tag, fields, root=True)] + [Packet(n, f) for n, f in subs]
        p = Proto(pk, base_options(tag, options), metadata or [], tag=tag)
        out.append(p)
        return p

    i = 0
    # scalar atoms
    for t in NUM_TYPES:
        for rep in (False, True):
            i += 1
            mk(alpha_tag('Mn', i), [num('Pre', 'u8'), num('Val', t, repeat=rep), num('Post', 'u16')])
    for rep in (False, True):
        for le in ('true', 'false'):
            i += 1
            mk(alpha_tag('Mn', i), [num('Va', 'u16', repeat=rep), num('Vb', 'i32', repeat=rep), num('Vc', 'u64'), num('Vd', 'f32'), num('Ve', 'f64', repeat=rep)],
               options={'LittleEndian': le, 'ArrayPrefixLenType': 'u8'})
    # strings
    j = 0
    for rep in (False, True):
        for spelling in ('string', 'char[]'):
            for sp in (None, 'u8', 'u16', 'u32'):
                for le in (None, 'true'):
                    j += 1
                    o = {}
                    if sp:
                        o['StringPrefixLenType'] = sp
                    if le:
                        o['LittleEndian'] = le
                    if rep:
                        o['ArrayPrefixLenType'] = 'u8' if j % 2 else 'u32'
                    mk(alpha_tag('Ms', j), [num('Pre', 'u8'), dyn('Text', spelling, repeat=rep), num('Post', 'u16')], options=o)
    # fixed strings: every padding form x repeat x a few configs
    j = 0
    for rep in (False, True):
        for pad in [None] + PADS:
            j += 1
            mk(alpha_tag('Mf', j), [num('Pre', 'u8'), fix('Code', 6, pad=pad, repeat=rep), num('Post', 'u16')],
               options={'LittleEndian': 'true'} if j % 3 == 0 else None)
        for z in (1, 5):
            j += 1
            mk(alpha_tag('Mf', j), [fix('Zed', z, zchar=True, repeat=rep), num('Post', 'u16')])
    for cfg in CONFIGS[9:14] + CONFIGS[16:18]:
        for rep in (False, True):
            j += 1
            mk(alpha_tag('Mf', j), [fix('Code', 5, repeat=rep), fix('Second', 3, pad=('right', '0')), fix('Zed', 4, zchar=True)], options=cfg)
    # lengths 1, 10, 20 and 256 for every pad character and side (round numbers, one character, longer than a u8 can count)
    for n, pad in ((10, ('right', '0')), (20, ('left', '0')), (10, ('right', 'nul')), (1, ('left', 'sp')), (256, ('right', 'sp')), (30, None)):
        j += 1
        mk(alpha_tag('Mf', j), [num('Pre', 'u8'), fix('Code', n, pad=pad), fix('Codes', n, pad=pad, repeat=True), num('Post', 'u16')],
           options={'FixedStringPadChar': "'0'"} if pad is None else None)
    # objects
    j = 0
    for rep in (False, True):
        for named in (False, True):
            for le in (None, 'true'):
                j += 1
                f = Field('ref', 'Item' if named else 'Detail', packet='Detail', named=named, repeat=rep)
                mk(alpha_tag('Mo', j), [num('Pre', 'u8'), f, num('Post', 'u16')],
                   subs=[('Detail', [dyn('RuleName'), num('Code', 'u16')])],
                   options={'LittleEndian': le} if le else None)
        for le in (None, 'true'):
            j += 1
            f = Field('inline', 'SubOrder', fields=[fix('ClOrd', 8), num('Price', 'u64'), num('Qty', 'u32')], repeat=rep)
            mk(alpha_tag('Mo', j), [num('Pre', 'u8'), f, num('Post', 'u16')], options={'LittleEndian': le} if le else None)
        j += 1
        inner = Field('inline', 'Leaf', fields=[num('Xa', 'u8'), dyn('Ya')], repeat=rep)
        f = Field('inline', 'Branch', fields=[num('Xb', 'u16'), inner], repeat=False)
        mk(alpha_tag('Mo', j), [f, num('Post', 'u16')])
    j += 1
    mk(alpha_tag('Mo', j), [Field('ref', 'Empty', packet='Empty', named=False), num('Post', 'u16')], subs=[('Empty', [])])
    # several members of one packet type under different names (plain, plain, repeated), also one level down
    j += 1
    mk(alpha_tag('Mo', j), [num('Pre', 'u8'), Field('ref', 'Bid', packet='Level', named=True), Field('ref', 'Ask', packet='Level', named=True),
                            Field('ref', 'Depth', packet='Level', named=True, repeat=True), num('Post', 'u16')],
       subs=[('Level', [num('Px', 'i64'), num('Qty', 'u32')])])
    j += 1
    mk(alpha_tag('Mo', j), [Field('ref', 'Book', packet='Book', named=True), num('Post', 'u16')],
       subs=[('Book', [Field('ref', 'Best', packet='Level', named=True), Field('ref', 'Worst', packet='Level', named=True)]), ('Level', [num('Px', 'i64'), dyn('Venue')])],
       options={'LittleEndian': 'true'})
    # declared packets that nothing refers to (each still needs its type in every target); four inline objects in one packet
    j += 1
    mk(alpha_tag('Mo', j), [num('Pre', 'u8'), Field('ref', 'Used', packet='Used', named=False)],
       subs=[('Orphan', [num('Xa', 'u16'), dyn('Ya')]), ('Used', [num('Xb', 'u8')]), ('OrphanTwo', [Field('ref', 'Inner', packet='Orphan', named=True), fix('Zc', 3)])])
    j += 1
    mk(alpha_tag('Mo', j), [Field('inline', 'Alpha', fields=[num('Xa', 'u8')]), Field('inline', 'Bravo', fields=[dyn('Xb')], repeat=True), Field('inline', 'Cargo', fields=[fix('Xc', 2)]),
                            Field('inline', 'Delta', fields=[num('Xd', 'i32', repeat=True), Field('inline', 'Echo', fields=[num('Xe', 'u8')]), Field('inline', 'Fox', fields=[num('Xf', 'u8')])]), num('Post', 'u16')])
    # inline objects of one NAME with different members in different packets
    j += 1
    mk(alpha_tag('Mo', j), [Field('inline', 'Leg', fields=[num('Ratio', 'u16')]), Field('ref', 'Hedge', packet='Hedge', named=True), num('Post', 'u16')],
       subs=[('Hedge', [num('Qty', 'u32'), Field('inline', 'Leg', fields=[num('Px', 'i64'), num('Flag', 'u8')], repeat=True)])])
    # three levels of inline nesting, repeated at two of them, next to a plain member of each level
    for le in (None, 'true'):
        j += 1
        l3 = Field('inline', 'Twig', fields=[num('Xc', 'u8'), fix('Yc', 3), num('Zc', 'i16', repeat=True)], repeat=True)
        l2 = Field('inline', 'Leaf', fields=[dyn('Yb'), l3, num('Xb', 'u32')], repeat=(le is None))
        l1 = Field('inline', 'Branch', fields=[num('Xa', 'u16'), l2, dyn('Ya', 'char[]')], repeat=(le is not None))
        mk(alpha_tag('Mo', j), [num('Pre', 'u8'), l1, num('Post', 'u16')], options={'LittleEndian': le, 'ArrayPrefixLenType': 'u8'} if le else None)
    # match
    j = 0
    for kt in INT_TYPES:
        for le in (None, 'true'):
            j += 1
            big = {'u8': 255, 'u16': 65535, 'u32': 2 ** 31, 'u64': 2 ** 40, 'i8': 127, 'i16': 32767, 'i32': 2 ** 31 - 1, 'i64': 2 ** 40}[kt]
            mk(alpha_tag('Mm', j), [num('MsgType', kt), Field('match', 'Body', key='MsgType', pairs=[([1], 'Logon'), ([2], 'Logout'), ([big], 'Beat')]), num('Post', 'u16')],
               subs=[('Logon', [dyn('User'), num('Ival', 'u16')]), ('Logout', [num('Code', 'u8')]), ('Beat', [])],
               options={'LittleEndian': le} if le else None)
    for keyf in (dyn('MsgType'), fix('MsgType', 4)):
        j += 1
        mk(alpha_tag('Mm', j), [keyf, Field('match', 'Body', key='MsgType', pairs=[(['A'], 'Logon'), (['BB'], 'Logout')]), num('Post', 'u16')],
           subs=[('Logon', [dyn('User')]), ('Logout', [num('Code', 'u8')])])
    j += 1
    mk(alpha_tag('Mm', j), [num('MsgType', 'u16'), Field('match', 'Body', key='MsgType', pairs=[([1, 2, 3], 'Logon'), ([7], 'Logout'), ([8, 9, 10, 11, 12, 13, 14], 'Logon')])],
       subs=[('Logon', [dyn('User')]), ('Logout', [num('Code', 'u8')])])
    j += 1
    mk(alpha_tag('Mm', j), [num('MsgType', 'u8'), Field('match', 'Body', key='MsgType', pairs=[([1], 'Logon'), ([2], 'Logon'), ([3], 'Logout')])],
       subs=[('Logon', [dyn('User')]), ('Logout', [num('Code', 'u8')])])
    j += 1
    mk(alpha_tag('Mm', j), [num('Pre', 'u32'), Field('ref', 'Wrap', packet='Wrap', named=False)],
       subs=[('Wrap', [num('Kind', 'u8'), Field('match', 'Body', key='Kind', pairs=[([1], 'Logon'), ([2], 'Logout')]), num('Tail', 'u16')]),
             ('Logon', [dyn('User')]), ('Logout', [num('Code', 'u8')])])
    j += 1
    mk(alpha_tag('Mm', j), [num('Pre', 'u8'), Field('inline', 'Wrapper', fields=[num('Kind', 'u8'), Field('match', 'Body', key='Kind', pairs=[([1], 'Logon'), ([2, 3], 'Logout')]), num('Tail', 'u16')]), num('Post', 'u16')],
       subs=[('Logon', [dyn('User')]), ('Logout', [num('Code', 'u8')])])
    j += 1
    mk(alpha_tag('Mm', j), [num('Pre', 'u8'), Field('ref', 'Outer', packet='Outer', named=False), num('Post', 'u16')],
       subs=[('Outer', [Field('inline', 'Holder', fields=[dyn('Kind'), Field('match', 'Body', key='Kind', pairs=[(['A'], 'Logon'), (['B'], 'Logout')])], repeat=True)]),
             ('Logon', [dyn('User')]), ('Logout', [num('Code', 'u8')])], options={'LittleEndian': 'true'})
    j += 1
    mk(alpha_tag('Mm', j), [num('KindA', 'u8'), num('KindB', 'u16'),
                      Field('match', 'BodyA', key='KindA', pairs=[([1], 'Logon'), ([2], 'Logout')]),
                      Field('match', 'BodyB', key='KindB', pairs=[([5], 'Logout'), ([6], 'Logon')])],
       subs=[('Logon', [dyn('User')]), ('Logout', [num('Code', 'u8')])])
    # lists of string keys; a key above the int range as the FIRST pair; an empty packet as the first alternative; a one-pair table
    j += 1
    mk(alpha_tag('Mm', j), [fix('Kind', 2), Field('match', 'Body', key='Kind', pairs=[(['TX', 'NT'], 'Logon'), (['PG'], 'Logout'), (['AA', 'BB', 'CC'], 'Beat')]), num('Post', 'u16')],
       subs=[('Logon', [dyn('User')]), ('Logout', [num('Code', 'u8')]), ('Beat', [])])
    j += 1
    mk(alpha_tag('Mm', j), [num('Channel', 'u32'), Field('match', 'Body', key='Channel', pairs=[([4000000001], 'Logon'), ([7], 'Logout')]), num('Post', 'u16')],
       subs=[('Logon', [dyn('User')]), ('Logout', [num('Code', 'u8')])])
    j += 1
    mk(alpha_tag('Mm', j), [num('Kind', 'u8'), Field('match', 'Body', key='Kind', pairs=[([0], 'Beat'), ([1], 'Logon'), ([2], 'Logout')]), num('Post', 'u16')],
       subs=[('Beat', []), ('Logon', [dyn('User'), num('Ival', 'u16')]), ('Logout', [num('Code', 'u8')])], options={'LittleEndian': 'true'})
    j += 1
    mk(alpha_tag('Mm', j), [num('Kind', 'u16'), Field('match', 'Body', key='Kind', pairs=[([7], 'Ping')]), num('Post', 'u16')], subs=[('Ping', [num('Seq', 'u32')])])
    j += 1
    mk(alpha_tag('Mm', j), [dyn('Kind'), Field('match', 'Body', key='Kind', pairs=[(['A,B', 'C D'], 'Logon'), (['E:F'], 'Logout'), (['', '[x]', '{y}'], 'Beat')]), num('Post', 'u16')],
       subs=[('Logon', [dyn('User')]), ('Logout', [num('Code', 'u8')]), ('Beat', [])])
    # the match field is the LAST thing on the wire and one alternative is empty (the message can end right behind the key)
    j += 1
    mk(alpha_tag('Mm', j), [num('Seq', 'u32'), num('Kind', 'u16'), Field('match', 'Body', key='Kind', pairs=[([1], 'Logon'), ([2], 'Beat'), ([3, 4], 'Beat')])],
       subs=[('Logon', [dyn('User')]), ('Beat', [])])
    # char[n] keys whose own padding differs from the configured one
    for pad, cfg in ((('left', '0'), None), (('right', '0'), {'FixedStringPadFromLeft': 'true'}), (('right', 'nul'), {'FixedStringPadChar': "'0'"}), (None, {'FixedStringPadChar': "'0'", 'FixedStringPadFromLeft': 'true'})):
        j += 1
        mk(alpha_tag('Mm', j), [fix('Kind', 4, pad=pad), Field('match', 'Body', key='Kind', pairs=[(['A'], 'Logon'), (['BB', 'CCC'], 'Logout'), (['DDDD'], 'Beat')]), num('Post', 'u16')],
           subs=[('Logon', [dyn('User')]), ('Logout', [num('Code', 'u8')]), ('Beat', [])], options=cfg)
    # two match fields keyed by the SAME field
    j += 1
    mk(alpha_tag('Mm', j), [num('Kind', 'u8'),
                      Field('match', 'Head', key='Kind', pairs=[([1], 'Logon'), ([2], 'Logout')]),
                      Field('match', 'Body', key='Kind', pairs=[([1], 'Logout'), ([2], 'Beat')]), num('Post', 'u16')],
       subs=[('Logon', [dyn('User')]), ('Logout', [num('Code', 'u8')]), ('Beat', [num('Seq', 'u32')])])
    # length-of
    j = 0
    for lt in UNS_TYPES:
        for prefixed in (False, True):
            for le in (None, 'true'):
                for tk in ('match', 'ref'):
                    j += 1
                    lenf = Field('len', 'BodyLen', ntype=lt, target='Body', prefixed=prefixed, typed=True)
                    lenf.alias = (j % 4 == 1)
                    if tk == 'match':
                        tgt = Field('match', 'Body', key='MsgType', pairs=[([1], 'Logon'), ([2], 'Beat'), ([3], 'Big')])
                    else:
                        tgt = Field('ref', 'Body', packet='Logon', named=True)
                    gap = [num('Seq', 'u32')] if j % 3 == 0 else []
                    mk(alpha_tag('Ml', j), [num('MsgType', 'u16'), lenf] + gap + [tgt, num('Post', 'u16')],
                       subs=[('Logon', [dyn('User'), num('Ival', 'u16')]), ('Beat', []), ('Big', [dyn('Blob'), Field('num', 'Nums', ntype='u32', repeat=True)])],
                       options=dict({'StringPrefixLenType': 'u32'}, **({'LittleEndian': le} if le else {})))
    j += 1
    mk(alpha_tag('Ml', j), [num('MsgType', 'u16'), Field('len', 'BodyLen', ntype='u16', target='Body', prefixed=False, typed=False),
                      Field('match', 'Body', key='MsgType', pairs=[([1], 'Logon')])],
       subs=[('Logon', [dyn('User')])], metadata=[('Hdr', [MetaEntry('BodyLen', base=num('BodyLen', 'u16'))])])
    # length of an inline object
    for prefixed in (False, True):
        for le in (None, 'true'):
            j += 1
            mk(alpha_tag('Ml', j), [num('MsgType', 'u16'), Field('len', 'BodyLen', ntype='u32' if le else 'u16', target='Body', prefixed=prefixed, typed=True)] + ([num('Seq', 'u32')] if prefixed else []) +
               [Field('inline', 'Body', fields=[dyn('User'), num('Ival', 'u16'), Field('num', 'Nums', ntype='u32', repeat=True)]), num('Post', 'u16')],
               options={'LittleEndian': le} if le else None)
    # the length field is the very first field of the message (placeholder position 0)
    for le in (None, 'true'):
        j += 1
        mk(alpha_tag('Ml', j), [Field('len', 'BodyLen', ntype='u16', target='Body', prefixed=(le is not None), typed=True), Field('ref', 'Body', packet='Logon', named=True), num('Post', 'u16')],
           subs=[('Logon', [dyn('User'), num('Ival', 'u16')])], options={'LittleEndian': le} if le else None)
    # checksum
    j = 0
    for ct in INT_TYPES:
        for prefixed in (False, True):
            for le in (None, 'true'):
                j += 1
                alg = {'u8': 'SUM8', 'u16': 'CRC16', 'u32': 'CRC32', 'u64': 'CRC64'}.get(ct, 'NONE') if j % 3 else 'NOPE'
                if j % 4 == 2 and alg not in ('NONE', 'NOPE'):
                    alg = {'SUM8': 'Xor8', 'CRC16': 'Add16', 'CRC32': 'Mix32', 'CRC64': 'Mix64'}[alg]      # registered mixed-case names (names are case-sensitive)
                ck = Field('cksum', 'Check', ntype=ct, algo=alg, prefixed=prefixed, typed=True)
                ck.alias = (j % 5 == 1)
                mk(alpha_tag('Mc', j), [num('MsgType', 'u16'), dyn('Text'), ck], options={'LittleEndian': le} if le else None)
    j += 1
    mk(alpha_tag('Mc', j), [num('MsgType', 'u16'), Field('cksum', 'Check', ntype='u32', algo='CRC32', prefixed=True, typed=True), num('Post', 'u16')])
    j += 1
    mk(alpha_tag('Mc', j), [num('Pre', 'u16'), Field('ref', 'Tail', packet='Tail', named=False)],
       subs=[('Tail', [dyn('Text'), Field('cksum', 'Check', ntype='u32', algo='CRC32', prefixed=False, typed=True)])])
    j += 1
    mk(alpha_tag('Mc', j), [num('MsgType', 'u16'), Field('len', 'BodyLen', ntype='u32', target='Body', prefixed=False, typed=True),
                      Field('match', 'Body', key='MsgType', pairs=[([1], 'Logon'), ([2], 'Beat')]),
                      Field('cksum', 'Check', ntype='u32', algo='CRC32', prefixed=True, typed=True)],
       subs=[('Logon', [fix('User', 10, pad=('left', '0')), dyn('Secret'), num('Client', 'u64')]), ('Beat', [])])
    # two checksum fields in one packet, different algorithms (header sum + trailer CRC); registered + unregistered
    for a1, a2, le in (('SUM8', 'CRC32', None), ('Xor8', 'NOPE', 'true'), ('NOPE', 'Mix32', None)):
        j += 1
        mk(alpha_tag('Mc', j), [num('MsgType', 'u16'), Field('cksum', 'HdrSum', ntype='u8', algo=a1, prefixed=False, typed=True), dyn('Text'),
                                Field('cksum', 'Trailer', ntype='u32', algo=a2, prefixed=(le is not None), typed=True)], options={'LittleEndian': le} if le else None)
    # the checksum is the FIRST field of the message (it covers zero bytes) / the only field
    j += 1
    mk(alpha_tag('Mc', j), [Field('cksum', 'Lead', ntype='u32', algo='CRC32', prefixed=False, typed=True), num('MsgType', 'u16'), dyn('Text'),
                            Field('cksum', 'Trail', ntype='u16', algo='CRC16', prefixed=True, typed=True)])
    j += 1
    mk(alpha_tag('Mc', j), [Field('cksum', 'Only', ntype='u8', algo='SUM8', prefixed=False, typed=True)], options={'LittleEndian': 'true'})
    # a checksum field INSIDE the payload the length field measures (match payload and plain member)
    j += 1
    mk(alpha_tag('Mc', j), [num('MsgType', 'u16'), Field('len', 'BodyLen', ntype='u32', target='Body', prefixed=False, typed=True),
                            Field('match', 'Body', key='MsgType', pairs=[([1], 'Order'), ([2], 'Beat')]), num('Post', 'u16')],
       subs=[('Order', [dyn('Sym'), Field('cksum', 'Check', ntype='u16', algo='CRC16', prefixed=False, typed=True), num('Qty', 'u32')]), ('Beat', [])])
    j += 1
    mk(alpha_tag('Mc', j), [num('Pre', 'u8'), Field('len', 'BodyLen', ntype='u16', target='Body', prefixed=True, typed=True), Field('ref', 'Body', packet='Order', named=True)],
       subs=[('Order', [dyn('Sym'), Field('cksum', 'Check', ntype='u32', algo='Mix32', prefixed=True, typed=True)])], options={'LittleEndian': 'true'})
    # MetaData
    j = 0
    md = [('Common', [MetaEntry('Seq', base=num('Seq', 'u32')), MetaEntry('Code', base=fix('Code', 4)), MetaEntry('Zed', base=fix('Zed', 6, zchar=True)),
                      MetaEntry('Note', base=dyn('Note')), MetaEntry('Price', base=num('Price', 'f64')), MetaEntry('Seq2', ref='Seq')])]
    for rep in (False, True):
        for named in (False, True):
            for ent in ('Seq', 'Code', 'Zed', 'Note', 'Price', 'Seq2'):
                j += 1
                f = Field('meta', 'Mine' if named else ent, entry=ent, named=named, repeat=rep)
                mk(alpha_tag('Md', j), [num('Pre', 'u8'), f, num('Post', 'u16')], metadata=md)
    j += 1
    mk(alpha_tag('Md', j), [Field('meta', 'Code', entry='Code', named=False, pad=('left', '0')), Field('meta', 'Second', entry='Code', named=True), num('Post', 'u16')], metadata=md)
    j += 1
    mk(alpha_tag('Md', j), [Field('meta', 'Seq', entry='Seq', named=False), Field('meta', 'Again', entry='Seq', named=True),
                      Field('ref', 'Inner', packet='Inner', named=False)], subs=[('Inner', [Field('meta', 'Seq', entry='Seq', named=False), Field('meta', 'Code', entry='Code', named=False)])], metadata=md)
    # padding attribute on one of several fields typed by a zchar MetaData entry; entry order basic / ref / basic
    j += 1
    mk(alpha_tag('Md', j), [Field('meta', 'Zed', entry='Zed', named=False, pad=('left', '0')), Field('meta', 'Third', entry='Zed', named=True),
                            Field('meta', 'Fourth', entry='Zed', named=True, pad=('right', 'sp')), num('Post', 'u16')], metadata=md)
    md2 = [('Ordered', [MetaEntry('Price', base=num('Price', 'u64')), MetaEntry('LastPx', ref='Price'), MetaEntry('Qty', base=num('Qty', 'u32')),
                        MetaEntry('AvgPx', ref='Price'), MetaEntry('Code', base=fix('Code', 3))])]
    j += 1
    mk(alpha_tag('Md', j), [Field('meta', 'LastPx', entry='LastPx', named=False), Field('meta', 'Qty', entry='Qty', named=False),
                            Field('meta', 'AvgPx', entry='AvgPx', named=False, repeat=True), Field('meta', 'Code', entry='Code', named=False)], metadata=md2)
    # fields with an EXPLICIT type whose name equals a MetaData entry of another type (the written type counts)
    j += 1
    mk(alpha_tag('Md', j), [num('Price', 'u32'), fix('Code', 12), Field('meta', 'Seq', entry='Seq', named=False), num('Zed', 'u8', repeat=True),
                            Field('inline', 'Inner', fields=[num('Seq', 'u64'), dyn('Price')])], metadata=md)
    # explicit default padding attributes under non-default padding options (the attribute must win in every language)
    j = 0
    for cfg in ({'FixedStringPadChar': "'0'"}, {'FixedStringPadFromLeft': 'true'}, {'FixedStringPadChar': "'\\x00'", 'FixedStringPadFromLeft': 'true'}, {'FixedStringPadChar': "'0'", 'LittleEndian': 'true'}):
        for rep in (False, True):
            j += 1
            mk(alpha_tag('Mp', j), [fix('Plain', 4, repeat=rep), fix('RightSp', 4, pad=('right', 'sp'), repeat=rep), fix('RightNone', 5, pad=('right', None)),
                                    fix('LeftSp', 4, pad=('left', 'sp')), fix('LeftNone', 3, pad=('left', None), repeat=rep), num('Post', 'u16')], options=cfg)
    # field-name shapes (packet names stay UpperCamel): lowerCamel, snake_case, ALLCAPS, digit-bearing, acronyms
    j = 0
    for fa, fb, mk_, mn, rn in [('clOrdId', 'orderQty', 'msgType', 'body', 'item'), ('cl_ord_id', 'order_qty', 'msg_type', 'msg_body', 'an_item'),
                                 ('CLORDID', 'QTY', 'KIND', 'BODY', 'ITEM'), ('Leg1Qty', 'Px2', 'Kind3', 'Body4', 'Item5'), ('ClOrdID', 'HTTPCode', 'MsgKind', 'XMLBody', 'DBItem'),
                                 ('ID', 'URL', 'IP', 'HTTP', 'API')]:     # bare acronyms: case converters treat configured acronyms specially
        j += 1
        tag = alpha_tag('Mi', j)
        mk(tag, [num(fa, 'u32'), dyn(fb), num(mk_, 'u8'), Field('match', mn, key=mk_, pairs=[([1], 'Logon'), ([2], 'Logout')]),
                 Field('ref', rn, packet='Detail', named=True), Field('inline', 'In' + tag, fields=[num(fa, 'u16'), fix(fb, 3)])],
           subs=[('Logon', [dyn(fa)]), ('Logout', [num(fb, 'u8')]), ('Detail', [num(fa, 'u16')])])
    # kitchen-sink packets: every field kind (plain and repeated) inside a match payload, a repeated object, an inline object
    def sink_fields(attrs=True):
        fs = [num('Ua', 'u8'), num('Ib', 'i16'), num('Uc', 'u32'), num('Id', 'i64'), num('Fe', 'f32'), num('Ff', 'f64'),
              num('Rg', 'i8', repeat=True), num('Rh', 'u64', repeat=True), num('Ri', 'f32', repeat=True),
              fix('Sa', 5), fix('Sb', 3, zchar=True), dyn('Sc'), dyn('Sd', 'char[]', repeat=True), fix('Se', 4, repeat=True), fix('Sf', 2, zchar=True, repeat=True)]
        if attrs:
            fs += [fix('Pa', 6, pad=('left', '0')), fix('Pb', 4, pad=('right', '0'), repeat=True), fix('Pc', 3, pad=('left', 'sp'), repeat=True),
                   Field('meta', 'Code', entry='Code', named=False), Field('meta', 'Px', entry='Price', named=True, repeat=True)]
        fs += [Field('ref', 'Leaf', packet='Leaf', named=False), Field('ref', 'Leaves', packet='Leaf', named=True, repeat=True),
               Field('inline', 'Deep', fields=[num('Da', 'u16'), fix('Db', 2, repeat=True), Field('inline', 'Deeper', fields=[dyn('Dc'), num('Dd', 'i32', repeat=True)], repeat=True)])]
        return fs
    leaf = ('Leaf', [num('La', 'u16'), dyn('Lb'), fix('Lc', 3, repeat=True)])
    j = 0
    for cfg in (None, {'LittleEndian': 'true', 'StringPrefixLenType': 'u8', 'ArrayPrefixLenType': 'u32'}, {'StringPrefixLenType': 'u32', 'ArrayPrefixLenType': 'u8', 'FixedStringPadChar': "'0'"}):
        j += 1
        mk(alpha_tag('Mk', j), [num('Kind', 'u8'), Field('match', 'Body', key='Kind', pairs=[([1], 'Sink'), ([2], 'Leaf')]), num('Post', 'u16')],
           subs=[('Sink', sink_fields()), leaf], options=cfg, metadata=md)
        j += 1
        mk(alpha_tag('Mk', j), [num('Pre', 'u8'), Field('ref', 'Items', packet='Sink', named=True, repeat=True), Field('ref', 'Sink', packet='Sink', named=False), num('Post', 'u16')],
           subs=[('Sink', sink_fields()), leaf], options=cfg, metadata=md)
        j += 1
        mk(alpha_tag('Mk', j), [num('Pre', 'u8'), Field('inline', 'Inl', fields=sink_fields(attrs=False)), Field('inline', 'Rinl', fields=sink_fields(attrs=False)[:12], repeat=True), num('Post', 'u16')],
           subs=[leaf], options=cfg, metadata=md)
    # char
    j = 0
    for rep in (False, True):
        j += 1
        mk(alpha_tag('Mh', j), [num('Pre', 'u8'), Field('char', 'Side', repeat=rep), num('Post', 'u16')])
    # round 7: corners the seventh drill showed to be unvisited
    j = 0
    for le in (None, 'true'):
        # u64 match keys in the upper half of the unsigned range (2^63, 2^64-1) next to a small one
        j += 1
        mk(alpha_tag('Mq', j), [num('MsgType', 'u64'), Field('match', 'Body', key='MsgType', pairs=[([1], 'Logon'), ([2 ** 63 if le is None else 2 ** 40], 'Logout'), ([2 ** 64 - 1], 'Beat')]), num('Post', 'u16')],
           subs=[('Logon', [dyn('User'), num('Ival', 'u16')]), ('Logout', [num('Code', 'u8')]), ('Beat', [])],
           options={'LittleEndian': le} if le else None)
    # a repeated member whose packet is EMPTY (also inside the first alternative of a match), and a plain member of an empty packet
    j += 1
    mk(alpha_tag('Mq', j), [num('Pre', 'u8'), Field('ref', 'Beats', packet='Beat', named=True, repeat=True), Field('ref', 'One', packet='Beat', named=True), num('Post', 'u16')],
       subs=[('Beat', [])])
    j += 1
    mk(alpha_tag('Mq', j), [num('Kind', 'u8'), Field('match', 'Body', key='Kind', pairs=[([1], 'Session'), ([2], 'Beat')]), num('Post', 'u16')],
       subs=[('Session', [Field('ref', 'Beats', packet='Beat', named=True, repeat=True), num('Seq', 'u32')]), ('Beat', [])], options={'ArrayPrefixLenType': 'u8'})
    # round 7, self-directed (no drill): more corners next to the ones above
    j = 0
    j += 1   # u32 key LISTS in the upper half of the unsigned range
    mk(alpha_tag('Mr', j), [num('MsgType', 'u32'), Field('match', 'Body', key='MsgType', pairs=[([1], 'Logon'), ([4026531840, 4294967295], 'Logout'), ([2147483648], 'Beat')]), num('Post', 'u16')],
       subs=[('Logon', [dyn('User')]), ('Logout', [num('Code', 'u8')]), ('Beat', [])])
    j += 1   # length of a string, of a repeated number, of a repeated member
    mk(alpha_tag('Mr', j), [Field('len', 'TextLen', ntype='u16', target='Text', prefixed=False, typed=True), dyn('Text'), num('Post', 'u16')])
    j += 1
    mk(alpha_tag('Mr', j), [Field('len', 'ValsLen', ntype='u32', target='Vals', prefixed=True, typed=True), num('Vals', 'u32', repeat=True), num('Post', 'u16')], options={'LittleEndian': 'true'})
    j += 1
    mk(alpha_tag('Mr', j), [num('Pre', 'u8'), Field('len', 'LegsLen', ntype='u16', target='Legs', prefixed=False, typed=True), Field('ref', 'Legs', packet='Leg', named=True, repeat=True), num('Post', 'u16')],
       subs=[('Leg', [num('Px', 'i64'), dyn('Sym')])])
    j += 1   # a checksum inside a REPEATED member; a match inside a repeated member
    mk(alpha_tag('Mr', j), [num('Pre', 'u8'), Field('ref', 'Items', packet='Item', named=True, repeat=True), num('Post', 'u16')],
       subs=[('Item', [num('V', 'u16'), Field('cksum', 'Check', ntype='u16', algo='CRC16', prefixed=False, typed=True)])])
    j += 1
    mk(alpha_tag('Mr', j), [num('Pre', 'u8'), Field('ref', 'Items', packet='Item', named=True, repeat=True), num('Post', 'u16')],
       subs=[('Item', [num('Kind', 'u8'), Field('match', 'Body', key='Kind', pairs=[([1], 'Logon'), ([2, 3], 'Logout')])]), ('Logon', [dyn('User')]), ('Logout', [num('Code', 'u8')])])
    return out


def random_proto(rng, tag, max_packets=6, depth=2, allow=None):
    """random composition; only constructs in `allow` (set of kinds) are used."""
    allow = allow or {'num', 'dyn', 'fix', 'zchar', 'fixpad', 'ref', 'inline', 'match', 'len', 'cksum', 'meta', 'repeat'}
    nm = Namer(rng)
    npk = rng.randint(1, max_packets)
    names = ['Root' + tag] + [nm.fresh('Pk') for _ in range(npk - 1)]
    cfg = dict(rng.choice(CONFIGS))
    metadata = []
    ents = []
    if 'meta' in allow and rng.random() < 0.5:
        for _ in range(rng.randint(1, 4)):
            b = simple_field(nm, rng, [k for k in ('num', 'dyn', 'fix', 'zchar') if k in allow or k == 'num'])
            ents.append(MetaEntry(b.name, base=b))
        if rng.random() < 0.3 and ents:
            ents.append(MetaEntry(nm.fresh(), ref=rng.choice(ents).name))
        metadata = [('Meta' + tag, ents)]
    packets = []
    scal = [k for k in ('num', 'dyn', 'fix', 'zchar', 'fixpad') if k in allow]
    for i in range(npk - 1, -1, -1):
        later = names[i + 1:]
        fields = []
        nf = rng.randint(0 if i > 0 and rng.random() < 0.1 else 1, 7)
        have_match_key = None
        for _ in range(nf):
            r = rng.random()
            repp = 0.3 if 'repeat' in allow else 0.0
            if r < 0.55 or not later:
                if ents and rng.random() < 0.25:
                    e = rng.choice(ents)
                    named = rng.random() < 0.5 or any(f.name == e.name for f in fields)
                    fields.append(Field('meta', nm.fresh() if named else e.name, entry=e.name, named=named, repeat=rng.random() < repp))
                else:
                    fields.append(simple_field(nm, rng, scal, repp))
            elif r < 0.7 and 'ref' in allow:
                pn = rng.choice(later)
                named = rng.random() < 0.5 or any(f.name == pn for f in fields)
                fields.append(Field('ref', nm.fresh() if named else pn, packet=pn, named=named, repeat=rng.random() < repp))
            elif r < 0.82 and 'inline' in allow:
                sub = [simple_field(nm, rng, [k for k in scal if k != 'fixpad'] or ['num'], repp) for _ in range(rng.randint(1, 3))]
                if depth > 1 and rng.random() < 0.3:
                    sub.append(Field('inline', nm.fresh('In'), fields=[simple_field(nm, rng, ['num', 'dyn'], 0) for _ in range(rng.randint(1, 2))], repeat=rng.random() < repp))
                fields.append(Field('inline', nm.fresh('In'), fields=sub, repeat=rng.random() < repp))
            elif 'match' in allow and have_match_key is None and len(later) >= 1:
                kt = rng.choice(['u8', 'u16', 'u32', 'u16', 'u8', 'i32', 'u64'])
                keyname = nm.fresh('Ky')
                fields.append(num(keyname, kt))
                nalt = rng.randint(1, min(4, len(later)))
                alts = rng.sample(later, nalt)
                pairs = []
                kv = 0
                for a in alts:
                    nk = 1 if rng.random() < 0.7 else rng.randint(2, 7)
                    ks = []
                    for _ in range(nk):
                        kv += rng.randint(1, 5)
                        ks.append(kv)
                    pairs.append((ks, a))
                fields.append(Field('match', nm.fresh('By'), key=keyname, pairs=pairs))
                have_match_key = keyname
            else:
                fields.append(simple_field(nm, rng, scal, repp))
        if i == 0:
            # root: optional len + cksum
            tgt = [f for f in fields if f.kind in ('match', 'ref') and not f.repeat]
            if 'len' in allow and tgt and rng.random() < 0.5:
                t = rng.choice(tgt)
                ti = fields.index(t)
                if t.kind == 'match':
                    ti = min(ti, fields.index(next(f for f in fields if f.name == t.key)) + 1)
                    ti = fields.index(t)
                lf = Field('len', nm.fresh('Ln'), ntype=rng.choice(['u16', 'u32', 'u32', 'u64', 'u8']), target=t.name,
                           prefixed=rng.random() < 0.5, typed=True)
                fields.insert(ti, lf)
            if 'cksum' in allow and rng.random() < 0.4:
                ct = rng.choice(INT_TYPES)
                alg = {'u8': 'SUM8', 'u16': 'CRC16', 'u32': 'CRC32', 'u64': 'CRC64'}.get(ct, 'NOPE')
                if rng.random() < 0.3:
                    alg = 'NOPE'
                fields.append(Field('cksum', nm.fresh('Ck'), ntype=ct, algo=alg, prefixed=rng.random() < 0.5, typed=True))
        packets.insert(0, Packet(names[i], fields, root=(i == 0)))
    # every packet must be reachable from the root, otherwise its codec is emitted but never executed by the lanes
    byname = {p.name: p for p in packets}
    reach = set()

    def visit(pk):
        if pk.name in reach:
            return
        reach.add(pk.name)
        stack = list(pk.fields)
        while stack:
            f = stack.pop()
            if f.kind == 'ref':
                visit(byname[f.packet])
            elif f.kind == 'match':
                for _, pn in f.pairs:
                    visit(byname[pn])
            elif f.kind == 'inline':
                stack.extend(f.fields)
    root = packets[0]
    visit(root)
    for pk in packets[1:]:
        if pk.name not in reach:
            ref = Field('ref', nm.fresh('Rf'), packet=pk.name, named=True, repeat=rng.random() < (0.3 if 'repeat' in allow else 0))
            at = len(root.fields)
            if root.fields and root.fields[-1].kind == 'cksum':
                at -= 1
            root.fields.insert(at, ref)
            visit(pk)
    if rng.random() < 0.4 and len(packets) > 1:
        r = packets.pop(0)
        packets.insert(rng.randint(0, len(packets)), r)
    return Proto(packets, base_options(tag, cfg), metadata, tag=tag)


# ------------------------------------------------------------------------------- messages

def _str_for(rng, shape, maxbytes, forbid_first=None, forbid_last=None, forbid_any=()):
    """a string with utf-8 length <= maxbytes honouring first/last byte constraints."""
    if maxbytes <= 0 or shape in ('zero', 'empty'):
        return ''
    alpha = 'ABCDEFGHJKLMNPQRSTUVWXYZabcdefghijkmnopqrstuvwxyz123456789'
    if shape == 'utf8':
        alpha = alpha + 'é中€ß' + '\U0001F600'
    if shape in ('max', 'full'):
        n = maxbytes
    elif shape == 'min':
        n = 1
    else:
        n = rng.randint(0, min(maxbytes, 20))
    s = ''
    while True:
        c = rng.choice(alpha)
        if len((s + c).encode()) > n:
            break
        s += c
    if shape in ('max', 'full'):
        while len(s.encode()) < n:
            s += 'x'
    if s:
        if forbid_first and s[0] == forbid_first:
            s = 'Q' + s[1:]
        if forbid_last and s[-1] == forbid_last:
            s = s[:-1] + 'Q'
    for ch in forbid_any:
        s = s.replace(ch, 'Q')
    return s


def gen_value(proto, p, f, rng, shape, alt_counter, depth=0):
    e = proto.eff(f)
    cfg = proto.cfg()

    def one():
        k = e.kind
        if k == 'num':
            t = e.ntype
            if t in ('f32', 'f64'):
                bits = F32_BITS if t == 'f32' else F64_BITS
                if shape == 'zero':
                    return 0
                if shape == 'min':
                    return bits[6]
                if shape == 'max':
                    return bits[3]
                return rng.choice(bits)
            w = WIDTH[t]
            signed = t.startswith('i')
            lo = -(1 << (8 * w - 1)) if signed else 0
            hi = (1 << (8 * w - 1)) - 1 if signed else (1 << (8 * w)) - 1
            if shape == 'zero':
                return 0
            if shape == 'min':
                return lo
            if shape == 'max':
                return hi
            if shape == 'neg':
                return -1 if signed else (1 << (8 * w - 1))
            return rng.choice([lo, hi, 0, 1, rng.randint(lo, hi), rng.randint(lo, hi), (1 << (8 * w - 1)) if not signed else -2])
        if k == 'char':
            return ord(rng.choice('ABXYZ12'))
        if k == 'fix':
            side, pb = proto.eff_pad(e)
            pc = pb.decode('latin1')
            kw = {'forbid_any': ('\x00',)}
            if side == 'left':
                kw['forbid_first'] = pc
            else:
                kw['forbid_last'] = pc
            sh = shape
            if shape == 'neg':
                sh = 'full'
            return _str_for(rng, sh, e.n, **kw)
        if k == 'dyn':
            mx = min(PREFIX_MAX[cfg['sp']], 300)
            if shape == 'max':
                mx = min(PREFIX_MAX[cfg['sp']], 255)
                return _str_for(rng, 'full', mx)
            if shape == 'neg':
                return _str_for(rng, 'full', min(PREFIX_MAX[cfg['sp']], 128))
            if shape == 'long' and cfg['sp'] != 'u8':
                return _str_for(rng, 'full', 40000 if depth == 0 else 300)
            if shape in ('typical', 'utf8') and rng.random() < 0.15:
                # white space is content like any other character: blank-only strings, leading / trailing / inner blanks, tab, line feed
                return rng.choice([' ', '  ', '\t', ' \t ', '\n', ' lead', 'trail ', 'a  b', '\r\n', '\x00', 'nul\x00inside'])
            return _str_for(rng, shape, min(mx, 24))
        if k == 'ref':
            return gen_packet(proto, proto.packet(f.packet), rng, shape, alt_counter, depth + 1)
        if k == 'inline':
            return gen_fields(proto, None, e.fields, rng, shape, alt_counter, depth + 1)
        raise ValueError(k)

    if f.repeat:
        mx = PREFIX_MAX[cfg['ap']]
        if shape in ('zero', 'empty', 'min'):
            n = 0
        elif shape == 'max':
            n = min(mx, 255) if depth == 0 and e.kind in ('num', 'char') else 3
        elif shape == 'neg':
            n = min(mx, 128) if depth == 0 and e.kind in ('num', 'char') else 2
        elif shape == 'long' and cfg['ap'] != 'u8' and depth == 0 and e.kind == 'num':
            n = 300
        else:
            n = rng.choice([0, 1, 2, 3]) if depth < 2 else rng.choice([0, 1])
        return [one() for _ in range(n)]
    return one()


def gen_fields(proto, p, fields, rng, shape, alt_counter, depth=0):
    msg = {}
    matches = [f for f in fields if f.kind == 'match']
    keyvals = {}
    for mf in matches:
        flat = [(k, pk) for ks, pk in mf.pairs for k in ks]
        idx = alt_counter.get((id(mf)), 0)
        alt_counter[id(mf)] = idx + 1
        k, pk = flat[idx % len(flat)]
        keyvals[mf.key] = k
        msg[mf.name] = (pk, gen_packet(proto, proto.packet(pk), rng, shape, alt_counter, depth + 1))
    for f in fields:
        if f.kind == 'match':
            continue
        if f.name in keyvals:
            msg[f.name] = keyvals[f.name]
            continue
        if f.kind == 'len':
            w = WIDTH[proto.eff(f).ntype]
            msg[f.name] = rng.choice([0, 1, (1 << (8 * w)) - 1, rng.randint(0, (1 << (8 * w)) - 1)])
            continue
        if f.kind == 'cksum':
            e = proto.eff(f)
            w = WIDTH[e.ntype]
            v = rng.randint(0, (1 << (8 * w)) - 1)
            if e.ntype.startswith('i') and v >= 1 << (8 * w - 1):
                v -= 1 << (8 * w)
            msg[f.name] = v
            continue
        msg[f.name] = gen_value(proto, p, f, rng, shape, alt_counter, depth)
    return {f.name: msg[f.name] for f in fields}


def gen_packet(proto, p, rng, shape, alt_counter, depth=0):
    return gen_fields(proto, p, p.fields, rng, shape, alt_counter, depth)


SHAPES_QUICK = ['typical', 'zero', 'max', 'min', 'neg', 'utf8', 'typical', 'long']
SHAPES_THOROUGH = SHAPES_QUICK + ['long', 'utf8', 'typical', 'typical', 'max', 'typical', 'neg', 'typical']


def messages(proto, rng, shapes, packet=None):
    p = packet or proto.root
    alt = {}
    out = []
    # make sure every alternative of every match in the root is visited at least once
    nalt = 1
    for f in p.fields:
        if f.kind == 'match':
            nalt = max(nalt, sum(len(ks) for ks, _ in f.pairs))
    shp = list(shapes)
    while len(shp) < nalt:
        shp.append('typical')
    for s in shp:
        out.append((s, gen_packet(proto, p, rng, s, alt)))
    return out


def rich_proto(rng, tag, npk=None):
    """protocol with >= 2 entries in every map the emitters range over: many packets, several match fields per packet,
    several cross-packet references, fixed strings in every padding form, MetaData-typed fixed strings shared by fields."""
    nm = Namer(rng)
    npk = npk or rng.randint(5, 12)
    names = ['Root' + tag] + [nm.fresh('Pk') for _ in range(npk - 1)]
    leafn = max(2, npk // 3)
    ents = [MetaEntry(nm.fresh(), base=fix('x', rng.choice([3, 6]))), MetaEntry(nm.fresh(), base=fix('x', 4, zchar=True)),
            MetaEntry(nm.fresh(), base=num('x', rng.choice(NUM_TYPES))), MetaEntry(nm.fresh(), base=dyn('x'))]
    for e in ents:
        e.base.name = e.name
    metadata = [('Meta' + tag, ents)]
    packets = []
    for i in range(npk - 1, -1, -1):
        later = names[i + 1:]
        fields = []
        if len(later) >= 2 and i < npk - leafn:
            for _ in range(rng.randint(2, 3) if i == 0 or rng.random() < 0.6 else 1):
                kn = nm.fresh('Ky')
                fields.append(num(kn, rng.choice(['u8', 'u16', 'u32'])))
                alts = rng.sample(later, min(len(later), rng.randint(2, 4)))
                kv = 0
                pairs = []
                for a in alts:
                    kv += rng.randint(1, 3)
                    pairs.append(([kv], a))
                fields.append(Field('match', nm.fresh('By'), key=kn, pairs=pairs))
            for a in rng.sample(later, min(len(later), rng.randint(2, 3))):
                named = rng.random() < 0.5
                if not named and any(f.name == a for f in fields):
                    named = True
                fields.append(Field('ref', nm.fresh() if named else a, packet=a, named=named, repeat=rng.random() < 0.3))
        for _ in range(rng.randint(2, 5)):
            r = rng.random()
            if r < 0.25:
                fields.append(fix(nm.fresh(), rng.choice([2, 5, 9]), pad=rng.choice(PADS + [None]), repeat=rng.random() < 0.3))
            elif r < 0.4:
                fields.append(fix(nm.fresh(), rng.choice([1, 4]), zchar=True, repeat=rng.random() < 0.3))
            elif r < 0.6:
                e = rng.choice(ents)
                fields.append(Field('meta', nm.fresh(), entry=e.name, named=True, repeat=rng.random() < 0.3))
            else:
                fields.append(simple_field(nm, rng, ('num', 'dyn', 'fix'), 0.3))
        rng.shuffle(fields)
        # keep each match key before its match field
        for f in [x for x in fields if x.kind == 'match']:
            ki = next(j for j, x in enumerate(fields) if x.name == f.key)
            mi = fields.index(f)
            if ki > mi:
                fields[ki], fields[mi] = fields[mi], fields[ki]
        packets.insert(0, Packet(names[i], fields, root=(i == 0)))
    cfg = dict(rng.choice(CONFIGS))
    return Proto(packets, base_options(tag, cfg), metadata, tag=tag)

import sys

from . import check


def load():
    from . import checks_meta
    c = {}
    c.update(checks_meta.CHECKS)
    try:
        from . import checks_format
        c.update(checks_format.CHECKS)
    except ImportError:
        pass
    try:
        from . import checks_robust
        c.update(checks_robust.CHECKS)
    except ImportError:
        pass
    try:
        from . import checks_wire
        c.update(checks_wire.CHECKS)
    except ImportError:
        pass
    return c


if __name__ == '__main__':
    sys.exit(check.main(load()))

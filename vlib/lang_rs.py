"""Rust lane: emitted crate built as an rlib with rustc directly (no cargo), driver linked against it."""
import glob
import os
from concurrent.futures import ThreadPoolExecutor

from . import lanes, tools

NAME = 'rust'
RT_SRC = os.path.join(tools.VERIF, 'runtimes', 'rust', 'lib.rs')
RT_DIR = os.path.join(tools.VERIF, '.cache', 'rt', 'rust')


def ensure_runtime():
    """build bytes, byteorder (real crates from the local cargo registry) and the binary_codec stand-in."""
    stamp = os.path.join(RT_DIR, 'libbinary_codec.rlib')
    if os.path.exists(stamp) and os.path.getmtime(stamp) >= os.path.getmtime(RT_SRC):
        return
    os.makedirs(RT_DIR, exist_ok=True)
    reg = sorted(glob.glob(os.path.expanduser('~/.cargo/registry/src/*/')))
    if not reg:
        raise tools.BuildError('no local cargo registry')
    reg = reg[0]
    cmds = [
        ['rustc', '--edition', '2021', '--crate-type', 'rlib', '--crate-name', 'bytes', '--cfg', 'feature="std"', '--cap-lints', 'allow', '-O',
         os.path.join(reg, 'bytes-1.11.1/src/lib.rs'), '--out-dir', RT_DIR],
        ['rustc', '--edition', '2018', '--crate-type', 'rlib', '--crate-name', 'byteorder', '--cfg', 'feature="std"', '--cap-lints', 'allow', '-O',
         os.path.join(reg, 'byteorder-1.5.0/src/lib.rs'), '--out-dir', RT_DIR],
        ['rustc', '--edition', '2021', '--crate-type', 'rlib', '--crate-name', 'binary_codec', '--cap-lints', 'allow', '-L', RT_DIR,
         '--extern', 'bytes=' + os.path.join(RT_DIR, 'libbytes.rlib'), RT_SRC, '--out-dir', RT_DIR],
    ]
    for c in cmds:
        rc, log = tools.run(c)
        if rc != 0:
            raise tools.BuildError('rust runtime build failed: %s\n%s' % (' '.join(c), log))


def externs():
    return ['-L', RT_DIR, '--extern', 'bytes=' + os.path.join(RT_DIR, 'libbytes.rlib'),
            '--extern', 'byteorder=' + os.path.join(RT_DIR, 'libbyteorder.rlib'),
            '--extern', 'binary_codec=' + os.path.join(RT_DIR, 'libbinary_codec.rlib')]


def rstr(s):
    return 'String::from_utf8(hx("%s")).unwrap()' % s.encode('utf-8').hex()


class Gen:
    def __init__(self, item):
        self.it = item
        self.p = item.proto
        self.L = []

    def T(self, name):
        return self.it.camel(name)

    def enum_name(self, owner, f):
        # emitted: pub enum <packet.Name><f.Name>Enum
        return owner + f.name + 'Enum'

    def Q(self, top, name):
        """path of a struct / enum: every declared packet has its module, inline objects live in the module of the packet that declares them"""
        return 'proto::%s::%s' % (self.it.snake(top), self.T(name) if name in self.it.names else name)

    def struct_expr(self, tname, owner_name, fields, msg, top=None):
        top = top or tname
        parts = []
        for f in fields:
            e = self.p.eff(f)
            v = msg[f.name]
            if f.repeat:
                ex = 'vec![%s]' % ', '.join(self.value(owner_name, f, e, x, top) for x in v)
            else:
                ex = self.value(owner_name, f, e, v, top)
            parts.append('%s: %s' % (self.it.snake(f.name), ex))
        return '%s { %s }' % (self.Q(top, tname), ', '.join(parts))

    def value(self, owner, f, e, v, top):
        k = e.kind
        if k in ('num', 'len', 'cksum'):
            if e.ntype == 'f32':
                return 'f32::from_bits(0x%x)' % v
            if e.ntype == 'f64':
                return 'f64::from_bits(0x%x)' % v
            if v < 0:
                return '(%d as %s)' % (v, e.ntype)
            return '%d%s' % (v, e.ntype)
        if k == 'char':
            return '(%du8 as char)' % v
        if k in ('fix', 'dyn'):
            return rstr(v)
        if k == 'ref':
            return self.struct_expr(f.packet, f.packet, self.p.packet(f.packet).fields, v)
        if k == 'inline':
            return self.struct_expr(f.name, f.name, e.fields, v, top)
        if k == 'match':
            pn, body = v
            return '%s::%s(%s)' % (self.Q(top, self.enum_name(owner, f)), pn, self.struct_expr(pn, pn, self.p.packet(pn).fields, body))
        raise ValueError(k)

    def dump_funcs(self):
        L = self.L
        done = set()

        def dump_fields(tname, fields, top=None):
            top = top or tname
            fn = 'dump_%s' % tname if top == tname else 'dump_%s__%s' % (top, tname)
            if fn in done:
                return
            done.add(fn)
            subs = []
            L.append('#[allow(non_snake_case, unused_variables, unused_mut)]')
            L.append('fn %s(o: &%s) -> String {' % (fn, self.Q(top, tname)))
            L.append('    let mut r = String::from("{");')
            for f in fields:
                e = self.p.eff(f)
                acc = 'o.%s' % self.it.snake(f.name)
                L.append('    r.push_str("%s=");' % f.name)
                if f.repeat:
                    L.append('    r.push_str("[");')
                    L.append('    for (i, x) in %s.iter().enumerate() { if i > 0 { r.push_str(","); } r.push_str(&%s); }' % (acc, self.dump_one(tname, f, e, '(*x)', 'x', subs, top)))
                    L.append('    r.push_str("]");')
                else:
                    L.append('    r.push_str(&%s);' % self.dump_one(tname, f, e, acc, '&' + acc, subs, top))
                L.append('    r.push_str(";");')
            L.append('    r.push_str("}");')
            L.append('    r')
            L.append('}')
            for nm, fl in subs:
                dump_fields(nm, fl, top)
        for pk in self.p.packets:
            dump_fields(pk.name, pk.fields)

    def dump_one(self, owner, f, e, val, ref, subs, top):
        k = e.kind
        if k in ('num', 'len', 'cksum'):
            if e.ntype == 'f32':
                return 'format!("f{:08x}", %s.to_bits())' % val
            if e.ntype == 'f64':
                return 'format!("f{:016x}", %s.to_bits())' % val
            return 'format!("{}", %s)' % val
        if k == 'char':
            return 'format!("{}", %s as u32)' % val
        if k in ('fix', 'dyn'):
            return 'format!("s{}", tohex(%s.as_bytes()))' % val
        if k == 'ref':
            return 'dump_%s(%s)' % (f.packet, ref)
        if k == 'inline':
            subs.append((f.name, e.fields))
            return 'dump_%s__%s(%s)' % (top, f.name, ref)
        if k == 'match':
            arms = []
            seen = set()
            for ks, pn in f.pairs:
                if pn in seen:
                    continue
                seen.add(pn)
                arms.append('%s::%s(x) => format!("<%s>{}", dump_%s(x))' % (self.Q(top, self.enum_name(owner, f)), pn, pn, pn))
            return '(match %s { %s })' % (ref, ', '.join(arms))
        raise ValueError(k)

    def driver(self):
        it = self.it
        root = self.p.root
        L = self.L
        L.append('#![allow(unused_imports, non_snake_case, unused_parens, dead_code)]')
        L.append('use bytes::{Buf, BufMut, Bytes, BytesMut};')
        L.append('use binary_codec::*;')
        mods = [it.snake(pk.name) for pk in self.p.packets]
        for m in mods:
            L.append('use proto::%s::*;' % m)
        L.append(HELPERS)
        for i, (shape, msg) in enumerate(it.msgs):
            L.append('fn build%d() -> %s { %s }' % (i, self.Q(root.name, root.name), self.struct_expr(root.name, root.name, root.fields, msg)))
        L.append('fn build(i: usize) -> %s { match i { %s _ => panic!("no such message") } }' % (
            self.Q(root.name, root.name), ' '.join('%d => build%d(),' % (i, i) for i in range(len(it.msgs)))))
        self.dump_funcs()
        L.append(MAIN.replace('@ROOT@', self.Q(root.name, root.name)).replace('@DUMPROOT@', 'dump_' + root.name))
        return '\n'.join(L) + '\n'


HELPERS = r'''
fn hx(s: &str) -> Vec<u8> { (0..s.len()/2).map(|i| u8::from_str_radix(&s[2*i..2*i+2], 16).unwrap()).collect() }
fn tohex(b: &[u8]) -> String { b.iter().map(|x| format!("{:02x}", x)).collect() }
fn clean(s: &str) -> String { let t: String = s.replace('\n', " "); t.chars().take(300).collect() }
fn pmsg(e: Box<dyn std::any::Any + Send>) -> String {
    if let Some(s) = e.downcast_ref::<&str>() { clean(s) } else if let Some(s) = e.downcast_ref::<String>() { clean(s) } else { "?".to_string() }
}
'''

MAIN = r'''
fn main() {
    use std::io::{BufRead, Write};
    std::panic::set_hook(Box::new(|_| {}));
    let path = std::env::args().nth(1).unwrap();
    let f = std::io::BufReader::new(std::fs::File::open(path).unwrap());
    let so = std::io::stdout();
    let mut out = std::io::BufWriter::new(so.lock());
    for line in f.lines() {
        let line = line.unwrap();
        let parts: Vec<&str> = line.split_whitespace().collect();
        if parts.is_empty() { continue; }
        if parts[0] == "E" {
            let i: usize = parts[1].parse().unwrap();
            writeln!(out, "BEGIN E {}", i).unwrap(); out.flush().unwrap();
            CKIN.lock().unwrap().clear();
            let r = std::panic::catch_unwind(std::panic::AssertUnwindSafe(|| {
                let obj = build(i);
                let mut buf = BytesMut::new();
                obj.encode(&mut buf);
                tohex(&buf[..])
            }));
            match r {
                Ok(h) => writeln!(out, "ENC {} {}", i, h).unwrap(),
                Err(e) => writeln!(out, "ENCERR {} PANIC: {}", i, pmsg(e)).unwrap(),
            }
            if let Ok(g) = CKIN.lock() { for (n, d) in g.iter() { writeln!(out, "CKIN {} {} {}", i, n, tohex(d)).unwrap(); } }
        } else if parts[0] == "U" {
            let i: usize = parts[1].parse().unwrap();
            writeln!(out, "BEGIN U {}", i).unwrap(); out.flush().unwrap();
            for (tag, on) in [("ENCU", false), ("ENCG", true)] {
                binary_codec::REGISTRY_ENABLED.store(on, std::sync::atomic::Ordering::SeqCst);
                let r = std::panic::catch_unwind(std::panic::AssertUnwindSafe(|| {
                    let obj = build(i);
                    let mut buf = BytesMut::new();
                    obj.encode(&mut buf);
                    tohex(&buf[..])
                }));
                match r {
                    Ok(h) => writeln!(out, "{} {} {}", tag, i, h).unwrap(),
                    Err(e) => writeln!(out, "{} {} ERR PANIC: {}", tag, i, pmsg(e)).unwrap(),
                }
            }
            binary_codec::REGISTRY_ENABLED.store(true, std::sync::atomic::Ordering::SeqCst);
        } else if parts[0] == "D" || parts[0] == "R" {
            let cid = parts[1];
            writeln!(out, "BEGIN D {}", cid).unwrap(); out.flush().unwrap();
            let src = if parts[0] == "R" { parts[3] } else { parts[2] };
            let data = if src == "-" { Vec::new() } else { hx(src) };
            let r = std::panic::catch_unwind(std::panic::AssertUnwindSafe(|| {
                let mut b = Bytes::from(data.clone());
                let o = @ROOT@::decode(&mut b);
                (o, b.remaining())
            }));
            match r {
                Err(e) => { writeln!(out, "DECERR {} PANIC: {}", cid, pmsg(e)).unwrap(); }
                Ok((None, _)) => { writeln!(out, "DECERR {} None", cid).unwrap(); }
                Ok((Some(obj), rem)) => {
                    writeln!(out, "DEC {} {} {}", cid, rem, @DUMPROOT@(&obj)).unwrap();
                    let r2 = std::panic::catch_unwind(std::panic::AssertUnwindSafe(|| {
                        let mut buf = BytesMut::new();
                        obj.encode(&mut buf);
                        tohex(&buf[..])
                    }));
                    match r2 {
                        Ok(h) => writeln!(out, "REENC {} {}", cid, h).unwrap(),
                        Err(e) => writeln!(out, "REENCERR {} PANIC: {}", cid, pmsg(e)).unwrap(),
                    }
                }
            }
        }
        out.flush().unwrap();
    }
    let t = TRACE.lock().unwrap();
    let js: Vec<String> = t.iter().map(|(k, v)| format!("\"{}\": {}", k, v)).collect();
    writeln!(out, "TRACE {{{}}}", js.join(", ")).unwrap();
    writeln!(out, "DONE").unwrap();
    out.flush().unwrap();
}
'''


class Batch:
    def __init__(self, work):
        self.dir = os.path.join(work, 'rust')
        os.makedirs(self.dir, exist_ok=True)
        self.status = {}
        ensure_runtime()

    def idir(self, it):
        return os.path.join(self.dir, it.tag)

    def build_one(self, it, want_driver=True):
        d = self.idir(it)
        src = os.path.join(d, 'src')
        os.makedirs(src, exist_ok=True)
        for name, data in it.files['rust'].items():
            p = os.path.join(src, name)
            os.makedirs(os.path.dirname(p), exist_ok=True)
            with open(p, 'wb') as f:
                f.write(data)
        if 'lib.rs' not in it.files['rust']:
            return ('emitted-fail', 'no lib.rs emitted')
        rc, log = tools.run(['rustc', '--edition', '2021', '--crate-type', 'rlib', '--crate-name', 'proto', '--cap-lints', 'allow',
                             os.path.join(src, 'lib.rs'), '--out-dir', d] + externs(), cwd=d)
        if rc != 0:
            return ('emitted-fail', log[-3000:])
        if not want_driver:
            return ('ok', '')
        try:
            drv = Gen(it).driver()
        except Exception as e:
            return ('driver-fail', 'driver generation: %r' % (e,))
        with open(os.path.join(d, 'driver.rs'), 'w') as f:
            f.write(drv)
        rc, log = tools.run(['rustc', '--edition', '2021', '--cap-lints', 'allow', '-A', 'warnings', os.path.join(d, 'driver.rs'), '-o', os.path.join(d, 'driver'),
                             '--extern', 'proto=' + os.path.join(d, 'libproto.rlib')] + externs(), cwd=d)
        if rc != 0:
            return ('driver-fail', log[-3000:])
        return ('ok', '')

    def prepare(self, items, want_drivers=True, jobs=16):
        with ThreadPoolExecutor(max_workers=jobs) as ex:
            for it, st in zip(items, ex.map(lambda it: self.build_one(it, want_drivers), items)):
                self.status[it.tag] = st

    def run(self, item, enc_ids, dec_cases):
        out = lanes.LaneOut()
        st, log = self.status.get(item.tag, ('not-run', ''))
        if st != 'ok':
            out.build = st
            out.log = log
            return out
        d = self.idir(item)
        cases = os.path.join(d, 'cases.txt')
        lanes.write_cases(cases, enc_ids, dec_cases)
        rc, text, fired = lanes.run_child([os.path.join(d, 'driver'), cases], d, os.path.join(d, 'run.log'))
        return lanes.finish_run(out, rc, text, fired)

    def selftest_one(self, it):
        d = self.idir(it)
        src = os.path.join(d, 'src')
        if not os.path.exists(os.path.join(src, 'lib.rs')):
            return ('build-fail', 'no lib.rs')
        rc, log = tools.run(['rustc', '--edition', '2021', '--test', '--crate-name', 'proto', '--cap-lints', 'allow', os.path.join(src, 'lib.rs'),
                             '-o', os.path.join(d, 'selftest')] + externs(), cwd=d)
        if rc != 0:
            return ('build-fail', log[-2500:])
        rc, text, fired = lanes.run_child([os.path.join(d, 'selftest'), '--test-threads', '1'], d, os.path.join(d, 'selftest.log'))
        names = [l.split(' ')[1] for l in text.split('\n') if l.startswith('test ') and ' ... ' in l]
        if fired:
            return ('watchdog', text[-500:], names)
        if rc == 0:
            return ('pass', '', names)
        return ('test-fail', text[-2000:], names)

    def run_selftests(self, items, jobs=16):
        res = {}
        with ThreadPoolExecutor(max_workers=jobs) as ex:
            for it, r in zip(items, ex.map(self.selftest_one, items)):
                res[it.tag] = r
        return res

"""Proto -> token list -> DSL text.

The token list is owned by the harness, so C09/C10 know a priori which tokens and
comments a text contains.  Tokens are plain strings; comments are Comment objects;
NL is a layout hint honoured only by the pretty layout.
"""
from .spec import ALIAS, PADCHARS


class Comment:
    def __init__(self, text, own_line):
        self.text = text          # includes leading //
        self.own_line = own_line  # True: on its own line; False: trails the previous token on its line

    def __repr__(self):
        return 'Comment(%r,%s)' % (self.text, 'own' if self.own_line else 'trail')


NL = object()


class Mark:
    """zero-width marker: brackets the tokens of one declaration so that its line span is known after layout."""

    def __init__(self, kind):
        self.kind = kind   # 'begin' | 'end'


MARK_BEGIN = Mark('begin')
MARK_END = Mark('end')


class Spelling:
    """Site-level spelling decisions. Default = canonical spelling. With rng, random per site."""

    def __init__(self, rng=None, p=0.5, **force):
        self.rng = rng
        self.p = p
        self.force = force

    def pick(self, what, default=False):
        if what in self.force:
            return self.force[what]
        if self.rng is None:
            return default
        return self.rng.random() < self.p


def type_tokens(f, sp, proto=None):
    """tokens for the type of a num/char/fix/dyn field (not including padding attrs)."""
    k = f.kind
    if k == 'num' or k in ('len', 'cksum'):
        t = f.ntype
        use_alias = f.alias if sp.rng is None else sp.pick('alias', f.alias)
        return [ALIAS[t] if use_alias else t]
    if k == 'char':
        return ['char']
    if k == 'fix':
        n = str(f.n)
        if sp.rng is not None and sp.pick('len_zero'):
            n = '0' + n        # DIGITS is decimal: char[010] is ten bytes
        if f.zchar:
            if getattr(f, 'pad', None) is None and sp.pick('zchar_as_pad'):
                return ['char[', n, ']']
            return ['zchar[', n, ']']
        return ['char[', n, ']']
    if k == 'dyn':
        s = f.spelling
        if sp.rng is not None and sp.pick('dyn_swap'):
            s = 'char[]' if s == 'string' else 'string'
        return [s]
    raise ValueError(k)


def pad_attr_tokens(f, sp, used_zchar_as_pad):
    out = []
    if f.kind == 'fix' and f.zchar and used_zchar_as_pad:
        out += ['@rightPad', '(', PADCHARS['nul'], ')', NL]
    pad = getattr(f, 'pad', None)
    if pad is not None:
        side, ch = pad
        t = ['@%sPad' % side, '(']
        if ch is not None:
            t.append(PADCHARS[ch])
        t += [')', NL]
        out += t
    return out


# documentation strings are content: runs of blanks, tabs, line breaks (the token rule allows them), per cent signs, quotes and
# comment look-alikes inside them must survive every tool untouched
DOC_TEXTS = ['doc %d', 'doc %d', 'two  spaces   %d', 'tab\there %d', 'first line %d\nsecond line', 'line %d\n\n    indented third line\n', '100%% of %d %%d %%s %%v %%!',
             '"quoted" \'q\' %d', '// not a comment %d', '{ } , ; [ ] : = %d', ' leading and trailing blank %d ', 'accents \u00e9\u00fc\u4e2d %d',
             'quantity left to fill, right? %d', "see @leftPad('0') @rightPad() @lengthOf(X) @tag(%d)", 'root packet match repeat options MetaData as true %d']


def doc_tokens(f, sp):
    d = getattr(f, 'doc', None)
    if sp.rng is not None and sp.pick('doc_toggle', False) and sp.force.get('doc_toggle', True):
        if d:
            return [] if sp.rng.random() < 0.5 else ['`%s changed`' % d]
        return ['`%s`' % (sp.rng.choice(DOC_TEXTS) % sp.rng.randint(0, 999))]
    if d:
        return ['`%s`' % d]
    return []


def _pair_tokens(keys, pkt, sp):
    t = []
    if len(keys) == 1:
        t += [key_tok(keys[0]), ':', pkt]
    else:
        t.append('[')
        for i, kk in enumerate(keys):
            if i:
                t.append(',')
            t.append(key_tok(kk))
        t += [']', ':', pkt]
    t.append(',')
    return t


def key_tok(k):
    return str(k) if isinstance(k, int) else '"%s"' % k


def field_tokens(proto, f, sp, allow_attr=True):
    t = _field_tokens(proto, f, sp, allow_attr)
    tag = getattr(f, 'tag', None)
    if tag is not None and allow_attr:
        t = ['@tag(', str(tag), ')', NL] + t
    elif allow_attr and sp.rng is not None and sp.force.get('tag_attr') and sp.rng.random() < 0.4:
        # wire lanes only: @tag(n) is parsed and stored but has no wire meaning; written before or after the other attributes
        tg = ['@tag(', str(sp.rng.randint(1, 999)), ')', NL]
        i = 0
        if sp.rng.random() < 0.5:
            while i < len(t) and isinstance(t[i], str) and t[i].startswith('@'):
                while i < len(t) and t[i] is not NL:
                    i += 1
                i += 1
        t = t[:i] + tg + t[i:]
    if getattr(f, '_mark', False):
        t = [MARK_BEGIN] + t + [MARK_END]
    return t


def _field_tokens(proto, f, sp, allow_attr=True):
    rep = ['repeat'] if f.repeat else []
    k = f.kind
    if k == 'meta' and sp.rng is not None and proto is not None and sp.pick('inline_meta'):
        g = proto.eff(f)
        g.doc = f.doc
        return field_tokens(proto, g, sp, allow_attr)
    if k in ('num', 'char', 'fix', 'dyn'):
        if k == 'fix' and f.zchar and not allow_attr:
            tt = ['zchar[', str(f.n), ']']
        else:
            tt = type_tokens(f, sp)
        zap = (k == 'fix' and f.zchar and tt[0] == 'char[')
        pre = pad_attr_tokens(f, sp, zap) if allow_attr else []
        if (k == 'fix' and not f.zchar and f.pad is None and allow_attr and sp.rng is not None and proto is not None
                and proto.cfg()['padchar'] == 'sp' and not proto.cfg()['padleft'] and sp.pick('explicit_default_pad')):
            pre = ['@rightPad', '('] + ([PADCHARS['sp']] if sp.pick('explicit_default_pad_char') else []) + [')', NL]
        return pre + rep + tt + [f.name] + doc_tokens(f, sp) + [',']
    if k == 'meta':
        pre = pad_attr_tokens(f, sp, False) if allow_attr else []
        nm = [f.name] if f.named else []
        return pre + rep + [f.entry] + nm + doc_tokens(f, sp) + [',']
    if k == 'ref':
        nm = [f.name] if f.named else []
        return rep + [f.packet] + nm + doc_tokens(f, sp) + [',']
    if k == 'inline':
        t = rep + [f.name, '{']
        for g in f.fields:
            t += field_tokens(proto, g, sp, allow_attr=False)
        return t + ['}', ',']
    if k == 'match':
        t = ['match', f.key, 'as', f.name, '{']
        for pi, (keys, pkt) in enumerate(f.pairs):
            mp = getattr(f, '_mark_pair', None)
            if mp is not None and mp == pi:
                t.append(MARK_BEGIN)
                t += _pair_tokens(keys, pkt, sp)
                t.append(MARK_END)
                continue
            if len(keys) > 1 and sp.pick('expand_keylist'):
                for kk in keys:
                    t += [key_tok(kk), ':', pkt]
                    if not sp.pick('drop_pair_comma'):
                        t.append(',')
                continue
            if len(keys) == 1 and not sp.pick('single_as_list'):
                t += [key_tok(keys[0]), ':', pkt]
            else:
                t.append('[')
                for i, kk in enumerate(keys):
                    if i:
                        t.append(',')
                    t.append(key_tok(kk))
                t += [']', ':', pkt]
            if not sp.pick('drop_pair_comma'):
                t.append(',')
        return t + ['}', ',']
    if k in ('len', 'cksum'):
        attr = ['@lengthOf(', f.target, ')'] if k == 'len' else ['@calculatedFrom(', '"%s"' % f.algo, ')']
        tt = type_tokens(f, sp) if f.typed else []
        prefixed = f.prefixed
        if sp.rng is not None and allow_attr and f.typed:
            if sp.pick('lenspell_swap'):
                prefixed = not prefixed
        if not allow_attr:
            prefixed = False
        if prefixed:
            if f.typed:
                return attr + [NL] + tt + [f.name] + doc_tokens(f, sp) + [',']
            # MetaData-typed + prefixed: "@lengthOf(X) Name," parses as attribute + object field typed by MetaData
            return attr + [NL] + [f.name] + doc_tokens(f, sp) + [',']
        return tt + [f.name] + attr + doc_tokens(f, sp) + [',']
    raise ValueError(k)


OPTION_ORDER = ['StringPrefixLenType', 'ArrayPrefixLenType', 'LittleEndian', 'FixedStringPadChar',
                'FixedStringPadFromLeft', 'JavaPackage', 'GoPackage', 'GoModule']
OPTION_DEFAULTS = {'StringPrefixLenType': 'u16', 'ArrayPrefixLenType': 'u16', 'LittleEndian': 'false',
                   'FixedStringPadFromLeft': 'false', 'FixedStringPadChar': "' '"}


def tokens(proto, sp=None):
    sp = sp or Spelling()
    t = []
    opts = dict(proto.options)
    if sp.rng is not None:
        for k, v in OPTION_DEFAULTS.items():
            if k not in opts and sp.pick('explicit_default:' + k):
                opts[k] = v
    tail_opts = {}
    if sp.rng is not None and len(opts) >= 2 and not getattr(proto, 'extra_options', None) and sp.pick('split_options'):
        # the options are spread over TWO blocks: the package names first, the wire-shaping options in a second block after the
        # MetaData blocks and the first packet (options may appear anywhere between definitions, every block counts)
        for k in list(opts):
            if k not in ('JavaPackage', 'GoPackage', 'GoModule'):
                tail_opts[k] = opts.pop(k)
        if not opts or not tail_opts:
            opts.update(tail_opts)
            tail_opts = {}
    if opts or getattr(proto, 'force_options_block', False):
        t += ['options', '{']
        for k in OPTION_ORDER:
            if k in opts:
                t += [k, '=', opts[k]]
                if not sp.pick('drop_semicolon'):
                    t.append(';')
                else:
                    t.append(NL)
        for k in opts:
            if k not in OPTION_ORDER:
                t += [k, '=', opts[k], ';']
        for name, value, marked in getattr(proto, 'extra_options', []):
            if marked:
                t.append(MARK_BEGIN)
            t += [name, '=', value, ';']
            if marked:
                t.append(MARK_END)
        t += ['}']
    for blk, ents in proto.metadata:
        t += ['MetaData', blk, '{']
        for e in ents:
            if getattr(e, '_mark', False):
                t.append(MARK_BEGIN)
            if e.ref is not None:
                t += [e.ref, e.name]
            else:
                b = e.base
                if b.kind == 'fix' and b.zchar:
                    t += ['zchar[', str(b.n), ']', e.name]     # no attribute position inside MetaData
                else:
                    t += type_tokens(b, sp) + [e.name]
            if e.doc:
                t.append('`%s`' % (e.doc if not (sp.rng is not None and sp.pick('doc_toggle', False)) else e.doc + ' v2'))
            t.append(',')
            if getattr(e, '_mark', False):
                t.append(MARK_END)
        t += ['}']
    for pi, p in enumerate(proto.packets):
        if getattr(p, '_mark', False):
            t.append(MARK_BEGIN)
        if p.root:
            t.append('root')
        t += ['packet', p.name, '{']
        if getattr(p, '_mark', False):
            t.append(MARK_END)
        for f in p.fields:
            t += field_tokens(proto, f, sp)
        t.append('}')
        if pi == 0 and tail_opts:
            t += ['options', '{']
            for k in OPTION_ORDER:
                if k in tail_opts:
                    t += [k, '=', tail_opts[k], ';']
            t += ['}']
    return t


NOSPACE_BEFORE = {',', ';', ')', ']'}
NOSPACE_AFTER = {'(', '[', '@lengthOf(', '@calculatedFrom(', '@tag(', 'char[', 'zchar['}


def layout(toks, style='pretty', rng=None, eol='\n'):
    """returns (text, lines) where lines[i] = 1-based line number of token index i (None for NL hints)."""
    out = []
    lines = []
    line = 1
    col_start = True     # at start of a line
    indent = 0
    brack = 0
    prev = None
    ind = '    '
    if style == 'tabs':
        ind = '\t'

    pending_nl = [False]

    def newline():
        nonlocal line, col_start
        pending_nl[0] = False
        out.append(eol)
        line += 1
        col_start = True

    def soft_newline():
        # pretty layouts: break the line here unless a trailing comment follows (it must stay on this line)
        pending_nl[0] = True

    def flush_nl():
        if pending_nl[0]:
            newline()

    def emit(s):
        nonlocal col_start, line
        out.append(s)
        line += s.count('\n')      # a documentation string may span lines
        col_start = False

    for i, tk in enumerate(toks):
        if isinstance(tk, Mark):
            lines.append(None)
            continue
        if tk is NL:
            lines.append(None)
            if style in ('pretty', 'tabs') and not col_start:
                soft_newline()
            continue
        if isinstance(tk, Comment):
            if tk.own_line:
                flush_nl()
                if not col_start:
                    newline()
                if style in ('pretty', 'tabs'):
                    emit(ind * indent)
                elif rng is not None and rng.random() < 0.5:
                    emit(' ' * rng.randint(0, 6))
                lines.append(line)
                emit(tk.text)
                newline()
            else:
                # trailing: must stay on the line of the previous token
                pending_nl[0] = False
                emit(' ')
                lines.append(line)
                emit(tk.text)
                newline()
            prev = tk
            continue
        # ordinary token
        flush_nl()
        if style in ('pretty', 'tabs'):
            if tk == '}':
                indent = max(0, indent - 1)
                if not col_start:
                    newline()
            if col_start:
                emit(ind * indent)
            elif tk in NOSPACE_BEFORE or (prev in NOSPACE_AFTER):
                pass
            else:
                emit(' ')
            lines.append(line)
            emit(tk)
            if tk in ('[', 'char[', 'zchar['):
                brack += 1
            elif tk == ']':
                brack -= 1
            if tk == '{':
                indent += 1
                soft_newline()
            elif tk in (',', ';') and brack == 0:
                soft_newline()
            elif tk == '}':
                nxt = None
                for z in toks[i + 1:]:
                    if z is not NL and not isinstance(z, Mark):
                        nxt = z
                        break
                if nxt != ',':
                    soft_newline()
        elif style == 'oneline':
            if not col_start:
                if not (tk in NOSPACE_BEFORE or prev in NOSPACE_AFTER):
                    emit(' ')
            lines.append(line)
            emit(tk)
        elif style == 'tokenperline':
            if not col_start:
                newline()
            lines.append(line)
            emit(tk)
        elif style == 'tight':
            if not col_start:
                if not (tk in NOSPACE_BEFORE or prev in NOSPACE_AFTER or prev in (',', ';', '{', '}', ')', ']', ':', '=')
                        or tk in ('{', '}', ':', '=', '(', '[')):
                    emit(' ')
            lines.append(line)
            emit(tk)
        elif style == 'random':
            if not col_start or rng.random() < 0.3:
                r = rng.random()
                if col_start:
                    emit(rng.choice([' ', '  ', '\t', '    ']))
                elif r < 0.25:
                    newline()
                    if rng.random() < 0.3:
                        newline()
                    if rng.random() < 0.6:
                        emit(rng.choice([' ', '    ', '\t', '        ']))
                elif r < 0.35 and (tk in NOSPACE_BEFORE or prev in NOSPACE_AFTER):
                    pass
                else:
                    emit(rng.choice([' ', ' ', '  ', '\t']))
            lines.append(line)
            emit(tk)
        else:
            raise ValueError(style)
        prev = tk
    if pending_nl[0]:
        newline()
    text = ''.join(out)
    return text, lines


def render(proto, sp=None, style='pretty', rng=None):
    return layout(tokens(proto, sp), style, rng)[0]


def essential(toks):
    """token texts without layout hints/comments and without grammar-optional separators."""
    return [t for t in toks if t is not NL and not isinstance(t, (Comment, Mark))]


def insert_comments(toks, rng, p=0.15, counter=None):
    """insert uniquely numbered comments at random token boundaries (the lexer puts them on the hidden channel anywhere)."""
    out = []
    n = [0] if counter is None else counter
    for i, t in enumerate(toks):
        if t is not NL and rng.random() < p:
            n[0] += 1
            out.append(Comment('// c%d %s' % (n[0], rng.choice(['note', 'x y z', '{ } , ;', 'packet A {', '`doc`', '100% %d %s', 'two  blanks\tand a tab', '"str" \'0\' `'])), own_line=True))
        out.append(t)
        if t is not NL and not isinstance(t, Comment) and rng.random() < p / 2:
            n[0] += 1
            out.append(Comment('// t%d trailing%s' % (n[0], rng.choice(['', '', ' 50% %s', '  x'])), own_line=False))
    return out


def marked_lines(toks, lines):
    """set of line numbers covered by the tokens between MARK_BEGIN and MARK_END."""
    out = set()
    inside = False
    for t, ln in zip(toks, lines):
        if t is MARK_BEGIN:
            inside = True
        elif t is MARK_END:
            inside = False
        elif inside and ln is not None:
            out.add(ln)
    return out

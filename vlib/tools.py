"""Build fin-protoc artefacts from the current working tree of /repo (or $VERIF_REPO) and talk to them."""
import base64
import json
import os
import shutil
import subprocess
import tempfile
import time

VERIF = os.path.dirname(os.path.dirname(os.path.abspath(__file__)))
REPO = os.environ.get('VERIF_REPO', '/repo')
TC124 = '/root/go/pkg/mod/golang.org/toolchain@v0.0.1-go1.24.2.linux-amd64/bin/go'


def go_env():
    env = dict(os.environ)
    env.pop('GOSUMDB', None)
    env['GOFLAGS'] = '-mod=mod'
    env['GOPROXY'] = 'off'
    env['GOTOOLCHAIN'] = 'local'
    env['GONOSUMDB'] = '*'
    env['GONOSUMCHECK'] = '1'
    env['GOFLAGS'] = '-mod=mod'
    return env


def go_bin():
    if os.path.exists(TC124):
        return TC124
    return 'go'


class BuildError(Exception):
    pass


def run(cmd, cwd=None, env=None, timeout=600, input=None):
    p = subprocess.run(cmd, cwd=cwd, env=env, stdout=subprocess.PIPE, stderr=subprocess.STDOUT, timeout=timeout, input=input)
    return p.returncode, p.stdout.decode('utf-8', 'replace')


class Scratch:
    """per-run scratch directory (outside /repo and /verif), removed on close."""

    def __init__(self, prefix='verif-'):
        base = os.environ.get('VERIF_SCRATCH_BASE', '/tmp')
        self.dir = tempfile.mkdtemp(prefix=prefix, dir=base)

    def path(self, *a):
        p = os.path.join(self.dir, *a)
        os.makedirs(os.path.dirname(p), exist_ok=True)
        return p

    def close(self):
        shutil.rmtree(self.dir, ignore_errors=True)


def build_vapi(scr):
    d = scr.path('vapi_build', 'x')
    d = os.path.dirname(d)
    shutil.copy(os.path.join(VERIF, 'harness/vapi/main.go'), d)
    tmpl = open(os.path.join(VERIF, 'harness/vapi/go.mod.tmpl')).read().replace('@REPO@', REPO)
    open(os.path.join(d, 'go.mod'), 'w').write(tmpl)
    shutil.copy(os.path.join(REPO, 'go.sum'), d)
    out = scr.path('bin', 'vapi')
    rc, log = run([go_bin(), 'build', '-tags', 'verif', '-o', out, '.'], cwd=d, env=go_env())
    if rc != 0:
        raise BuildError('vapi build failed:\n' + log)
    return out


def build_cli(scr):
    out = scr.path('bin', 'fin-protoc')
    rc, log = run([go_bin(), 'build', '-o', out, './cmd/'], cwd=REPO, env=go_env())
    if rc != 0:
        raise BuildError('fin-protoc build failed:\n' + log)
    return out


def build_shared(scr):
    out = scr.path('lib', 'libpacketdsl.so')
    rc, log = run([go_bin(), 'build', '-buildmode=c-shared', '-o', out, './cmd/'], cwd=REPO, env=go_env(), timeout=900)
    if rc != 0:
        raise BuildError('libpacketdsl.so build failed:\n' + log)
    return out


class VapiDied(Exception):
    def __init__(self, msg, stderr_tail=''):
        super().__init__(msg)
        self.stderr_tail = stderr_tail


class Vapi:
    """client for the vapi JSON-lines helper; the request is logged to disk before it is sent."""

    def __init__(self, binpath, scr, name='vapi'):
        self.bin = binpath
        self.scr = scr
        self.name = name
        self.p = None
        self.calls = 0
        self.restarts = 0
        self.errpath = scr.path('logs', name + '.stderr')
        self.lastpath = scr.path('logs', name + '.last_request.json')

    def start(self):
        self.errf = open(self.errpath, 'ab')
        self.p = subprocess.Popen([self.bin], stdin=subprocess.PIPE, stdout=subprocess.PIPE, stderr=self.errf, bufsize=0)
        self.rd = self.p.stdout

    def stop(self):
        if self.p:
            try:
                self.p.stdin.close()
                self.p.wait(timeout=5)
            except Exception:
                self.p.kill()
            self.p = None

    def call(self, req, timeout=120):
        if self.p is None or self.p.poll() is not None:
            self.start()
        data = (json.dumps(req) + '\n').encode()
        with open(self.lastpath, 'wb') as f:
            f.write(data)
        self.calls += 1
        try:
            self.p.stdin.write(data)
            self.p.stdin.flush()
        except BrokenPipeError:
            pass
        line = self._readline(timeout)
        if not line:
            rc = self.p.poll()
            if rc is None:
                # watchdog: no answer in time
                self.p.send_signal(3)
                time.sleep(0.5)
                self.p.kill()
                self.p.wait()
                self.p = None
                self.restarts += 1
                raise VapiDied('timeout', self._tail())
            self.p = None
            self.restarts += 1
            raise VapiDied('exit %s' % rc, self._tail())
        return json.loads(line)

    def _readline(self, timeout):
        import select
        buf = b''
        end = time.time() + timeout
        fd = self.rd.fileno()
        while True:
            left = end - time.time()
            if left <= 0:
                return b''
            r, _, _ = select.select([fd], [], [], min(left, 1.0))
            if not r:
                if self.p.poll() is not None:
                    # drain
                    rest = os.read(fd, 1 << 20) if select.select([fd], [], [], 0)[0] else b''
                    if rest:
                        buf += rest
                        if buf.endswith(b'\n'):
                            return buf
                    return b''
                continue
            chunk = os.read(fd, 1 << 20)
            if not chunk:
                return b''
            buf += chunk
            if buf.endswith(b'\n'):
                return buf

    def _tail(self):
        try:
            self.errf.flush()
            with open(self.errpath, 'rb') as f:
                f.seek(0, 2)
                n = f.tell()
                f.seek(max(0, n - 4000))
                return f.read().decode('utf-8', 'replace')
        except Exception:
            return ''

    # ---- convenience
    def compile(self, text, langs, shared=False):
        r = self.call({'op': 'compile', 'text_b64': b64(text), 'langs': langs, 'shared': shared})
        files = {}
        for l, m in (r.get('files') or {}).items():
            files[l] = {k: base64.b64decode(v) for k, v in m.items()}
        r['files'] = files
        return r

    def format(self, text):
        r = self.call({'op': 'format', 'text_b64': b64(text)})
        r['out'] = base64.b64decode(r.get('out_b64', ''))
        return r

    def names(self, ids):
        return self.call({'op': 'names', 'ids': list(ids)})['names']


def b64(text):
    if isinstance(text, str):
        text = text.encode('utf-8', 'surrogateescape')
    return base64.b64encode(text).decode()


LANGS = ['lua', 'rust', 'go', 'java', 'python', 'cpp']
CODEC_LANGS = ['go', 'rust', 'java', 'python', 'cpp']

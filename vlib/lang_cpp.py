"""C++ lane: emitted header + stand-in runtime + generated driver, built with clang++ ASan+UBSan."""
import os
from concurrent.futures import ThreadPoolExecutor

from . import lanes, tools

NAME = 'cpp'
RT = os.path.join(tools.VERIF, 'runtimes', 'cpp')
CT = {'u8': 'uint8_t', 'i8': 'int8_t', 'u16': 'uint16_t', 'i16': 'int16_t', 'u32': 'uint32_t', 'i32': 'int32_t',
      'u64': 'uint64_t', 'i64': 'int64_t', 'f32': 'float', 'f64': 'double'}
SAN = ['-fsanitize=address,undefined', '-fno-sanitize-recover=all', '-fno-omit-frame-pointer']
CXX = ['clang++', '-std=c++17', '-O0', '-g0', '-w']


def san_env():
    env = dict(os.environ)
    env['ASAN_OPTIONS'] = 'halt_on_error=1:abort_on_error=1:detect_leaks=1:allocator_may_return_null=1'
    env['UBSAN_OPTIONS'] = 'halt_on_error=1:print_stacktrace=1'
    return env


def cstr(s):
    return 'S("%s")' % s.encode('utf-8').hex()


class Gen:
    def __init__(self, item):
        self.it = item
        self.p = item.proto
        self.L = []
        self.tmp = 0

    def newtmp(self):
        self.tmp += 1
        return 't%d' % self.tmp

    def fill(self, var, fields, msg, ind='    '):
        """var is an lvalue expression of struct type (use '.' access)."""
        L = self.L
        for f in fields:
            e = self.p.eff(f)
            v = msg[f.name]
            mem = '%s.%s' % (var, self.it.lower(f.name))
            k = e.kind
            if f.repeat:
                for x in v:
                    if k in ('ref', 'inline'):
                        tn = f.packet if k == 'ref' else f.name
                        fl = self.p.packet(f.packet).fields if k == 'ref' else e.fields
                        L.append('%s%s.emplace_back();' % (ind, mem))
                        L.append('%s{' % ind)
                        t = self.newtmp()
                        L.append('%s  auto& %s = %s.back();' % (ind, t, mem))
                        self.fill(t, fl, x, ind + '  ')
                        L.append('%s}' % ind)
                    else:
                        L.append('%s%s.push_back(%s);' % (ind, mem, self.scalar(e, x)))
                continue
            if k in ('ref', 'inline'):
                fl = self.p.packet(f.packet).fields if k == 'ref' else e.fields
                L.append('%s{' % ind)
                t = self.newtmp()
                L.append('%s  auto& %s = %s;' % (ind, t, mem))
                self.fill(t, fl, v, ind + '  ')
                L.append('%s}' % ind)
            elif k == 'match':
                pn, body = v
                L.append('%s{' % ind)
                t = self.newtmp()
                L.append('%s  auto %s_p = std::make_unique<%s>();' % (ind, t, pn))
                L.append('%s  auto& %s = *%s_p;' % (ind, t, t))
                self.fill(t, self.p.packet(pn).fields, body, ind + '  ')
                L.append('%s  %s = std::move(%s_p);' % (ind, mem, t))
                L.append('%s}' % ind)
            else:
                L.append('%s%s = %s;' % (ind, mem, self.scalar(e, v)))

    def scalar(self, e, v):
        k = e.kind
        if k in ('num', 'len', 'cksum'):
            if e.ntype == 'f32':
                return 'F32(0x%xu)' % v
            if e.ntype == 'f64':
                return 'F64(0x%xull)' % v
            w = {'u8': 8, 'i8': 8, 'u16': 16, 'i16': 16, 'u32': 32, 'i32': 32, 'u64': 64, 'i64': 64}[e.ntype]
            return 'static_cast<%s>(0x%xull)' % (CT[e.ntype], v & ((1 << w) - 1))
        if k == 'char':
            return 'static_cast<uint8_t>(%d)' % v
        if k in ('fix', 'dyn'):
            return cstr(v)
        raise ValueError(k)

    def dump_funcs(self):
        L = self.L
        done = set()
        L.append('static std::string dump_dyn(const codec::BinaryCodec* o);')

        def protos(tname, fields):
            L.append('static std::string dump_%s(const %s& o);' % (tname, tname))
            for f in fields:
                if f.kind == 'inline':
                    protos(f.name, f.fields)
        for pk in self.p.packets:
            protos(pk.name, pk.fields)

        def dump_fields(tname, fields):
            if tname in done:
                return
            done.add(tname)
            subs = []
            body = []
            body.append('static std::string dump_%s(const %s& o) {' % (tname, tname))
            body.append('  std::string r = "{";')
            for f in fields:
                e = self.p.eff(f)
                acc = 'o.%s' % self.it.lower(f.name)
                body.append('  r += "%s=";' % f.name)
                if f.repeat:
                    body.append('  r += "["; { size_t i = 0; for (const auto& x : %s) { if (i++) r += ","; r += %s; } } r += "]";' % (acc, self.dump_one(f, e, 'x', subs)))
                else:
                    body.append('  r += %s;' % self.dump_one(f, e, acc, subs))
                body.append('  r += ";";')
            body.append('  return r + "}";')
            body.append('}')
            for nm, fl in subs:
                dump_fields(nm, fl)
            L.extend(body)
        for pk in self.p.packets:
            dump_fields(pk.name, pk.fields)
        L.append('static std::string dump_dyn(const codec::BinaryCodec* o) {')
        L.append('  if (!o) return "null";')
        for pk in self.p.packets:
            L.append('  if (typeid(*o) == typeid(%s)) return "<%s>" + dump_%s(*static_cast<const %s*>(o));' % (pk.name, pk.name, pk.name, pk.name))
        L.append('  return std::string("<?") + typeid(*o).name() + ">null";')
        L.append('}')

    def dump_one(self, f, e, acc, subs):
        k = e.kind
        if k in ('num', 'len', 'cksum'):
            if e.ntype == 'f32':
                return 'DF32(%s)' % acc
            if e.ntype == 'f64':
                return 'DF64(%s)' % acc
            if e.ntype.startswith('i'):
                return 'std::to_string(static_cast<long long>(%s))' % acc
            return 'std::to_string(static_cast<unsigned long long>(%s))' % acc
        if k == 'char':
            return 'std::to_string(static_cast<unsigned>(%s))' % acc
        if k in ('fix', 'dyn'):
            return 'DS(%s)' % acc
        if k == 'ref':
            return 'dump_%s(%s)' % (f.packet, acc)
        if k == 'inline':
            subs.append((f.name, e.fields))
            return 'dump_%s(%s)' % (f.name, acc)
        if k == 'match':
            return 'dump_dyn(%s.get())' % acc
        raise ValueError(k)

    def driver(self, header):
        it = self.it
        root = self.p.root
        L = self.L
        L.append('#define VERIF_NO_GTEST_MAIN 1')
        L.append('#include "%s"' % header)
        L.append('#include "include/checksum.hpp"\n#include <typeinfo>\n#include <fstream>\n#include <cstdio>')
        L.append(HELPERS)
        for i, (shape, msg) in enumerate(it.msgs):
            L.append('static void build%d(%s& r) {' % (i, root.name))
            self.fill('r', root.fields, msg)
            L.append('}')
        L.append('static void build(int i, %s& r) {' % root.name)
        L.append('  switch (i) {')
        for i in range(len(it.msgs)):
            L.append('    case %d: build%d(r); return;' % (i, i))
        L.append('  }')
        L.append('  throw std::runtime_error("no such message");')
        L.append('}')
        self.dump_funcs()
        L.append(MAIN.replace('@ROOT@', root.name).replace('@DUMPROOT@', 'dump_' + root.name))
        return '\n'.join(L) + '\n'


HELPERS = r'''
static std::vector<uint8_t> HX(const std::string& s) { std::vector<uint8_t> v; for (size_t i = 0; i + 1 < s.size(); i += 2) v.push_back(static_cast<uint8_t>(std::stoi(s.substr(i, 2), nullptr, 16))); return v; }
static std::string S(const char* h) { auto v = HX(h); return std::string(v.begin(), v.end()); }
static float F32(uint32_t b) { float f; std::memcpy(&f, &b, 4); return f; }
static double F64(uint64_t b) { double f; std::memcpy(&f, &b, 8); return f; }
static std::string DF32(float f) { uint32_t b; std::memcpy(&b, &f, 4); char buf[16]; std::snprintf(buf, sizeof buf, "f%08x", b); return buf; }
static std::string DF64(double f) { uint64_t b; std::memcpy(&b, &f, 8); char buf[24]; std::snprintf(buf, sizeof buf, "f%016llx", static_cast<unsigned long long>(b)); return buf; }
static std::string DS(const std::string& s) { return "s" + vtrace::hex(reinterpret_cast<const uint8_t*>(s.data()), s.size()); }
static std::string clean(std::string s) { for (auto& c : s) if (c == '\n') c = ' '; if (s.size() > 300) s.resize(300); return s; }
'''

MAIN = r'''
int main(int argc, char** argv) {
  std::ifstream in(argv[1]);
  std::string line;
  while (std::getline(in, line)) {
    std::istringstream ls(line);
    std::string kind, a, b, c;
    ls >> kind >> a >> b >> c;
    if (kind == "R") {
      std::cout << "BEGIN R " << a << std::endl;
      std::vector<uint8_t> d1 = (b == "-") ? std::vector<uint8_t>() : HX(b);
      std::vector<uint8_t> d2 = (c == "-") ? std::vector<uint8_t>() : HX(c);
      @ROOT@ obj;
      try { ByteBuf b1(d1); obj.decode(b1); } catch (const std::exception&) {}
      try {
        ByteBuf b2(d2);
        obj.decode(b2);
        std::cout << "DEC " << a << " " << b2.readable_bytes() << " " << @DUMPROOT@(obj) << "\n";
      } catch (const std::exception& e) {
        std::cout << "DECERR " << a << " " << clean(e.what()) << "\n";
      }
      std::cout.flush();
      continue;
    }
    if (kind == "A") {
      // a connection buffer in use: two copies of message 0 are written, the first is decoded (consumed), then message i is appended
      int i = std::stoi(a);
      std::cout << "BEGIN A " << i << std::endl;
      try {
        ByteBuf buf;
        bool ready = false;
        try {
          for (int k = 0; k < 2; k++) { @ROOT@ first; build(0, first); first.encode(buf); }
          @ROOT@ sink; sink.decode(buf);
          ready = true;
        } catch (const std::exception& e) {
          std::cout << "ENCA " << i << " SKIP " << clean(e.what()) << "\n";
        }
        if (ready) {
          @ROOT@ obj; build(i, obj); obj.encode(buf);
          std::cout << "ENCA " << i << " " << vtrace::hex(buf.data().data() + buf.reader_index(), buf.data().size() - buf.reader_index()) << "\n";
        }
      } catch (const std::exception& e) {
        std::cout << "ENCA " << i << " ERR " << clean(e.what()) << "\n";
      }
      std::cout.flush();
      continue;
    }
    if (kind == "U") {
      int i = std::stoi(a);
      std::cout << "BEGIN U " << i << std::endl;
      for (int st = 0; st < 2; st++) {
        const char* tg = st == 0 ? "ENCU" : "ENCG";
        ChecksumServiceContext::instance().verif_enabled = (st == 1);
        try {
          @ROOT@ obj;
          build(i, obj);
          ByteBuf buf;
          obj.encode(buf);
          std::cout << tg << " " << i << " " << vtrace::hex(buf.data().data(), buf.data().size()) << "\n";
        } catch (const std::exception& e) {
          std::cout << tg << " " << i << " ERR " << clean(e.what()) << "\n";
        }
      }
      ChecksumServiceContext::instance().verif_enabled = true;
      std::cout.flush();
      continue;
    }
    if (kind == "E") {
      int i = std::stoi(a);
      std::cout << "BEGIN E " << i << std::endl;
      vtrace::ckin().clear(); vtrace::patches().clear();
      try {
        @ROOT@ obj;
        build(i, obj);
        ByteBuf buf;
        obj.encode(buf);
        std::cout << "ENC " << i << " " << vtrace::hex(buf.data().data(), buf.data().size()) << "\n";
      } catch (const std::exception& e) {
        std::cout << "ENCERR " << i << " " << clean(e.what()) << "\n";
      }
      for (auto& c : vtrace::ckin()) std::cout << "CKIN " << i << " " << c.first << " " << c.second << "\n";
      for (auto& p : vtrace::patches()) std::cout << "PATCH " << i << " " << p << "\n";
    } else if (kind == "D") {
      std::cout << "BEGIN D " << a << std::endl;
      std::vector<uint8_t> data = (b == "-") ? std::vector<uint8_t>() : HX(b);
      @ROOT@ obj;
      bool ok = false;
      try {
        ByteBuf buf(data);
        obj.decode(buf);
        std::cout << "DEC " << a << " " << buf.readable_bytes() << " " << @DUMPROOT@(obj) << "\n";
        ok = true;
      } catch (const std::exception& e) {
        std::cout << "DECERR " << a << " " << clean(e.what()) << "\n";
      }
      if (ok) {
        try {
          ByteBuf b2;
          obj.encode(b2);
          std::cout << "REENC " << a << " " << vtrace::hex(b2.data().data(), b2.data().size()) << "\n";
        } catch (const std::exception& e) {
          std::cout << "REENCERR " << a << " " << clean(e.what()) << "\n";
        }
      }
    }
    std::cout.flush();
  }
  std::cout << "TRACE {";
  bool first = true;
  for (auto& kv : vtrace::counts()) { if (!first) std::cout << ", "; first = false; std::cout << "\"" << kv.first << "\": " << kv.second; }
  std::cout << "}\nDONE" << std::endl;
  return 0;
}
'''


class Batch:
    def __init__(self, work):
        self.dir = os.path.join(work, 'cpp')
        os.makedirs(self.dir, exist_ok=True)
        self.status = {}

    def idir(self, it):
        return os.path.join(self.dir, it.tag)

    def header_of(self, it):
        for n in it.files['cpp']:
            if n.startswith('include/') and n.endswith('.hpp'):
                return n
        return None

    def build_one(self, it, want_driver=True):
        d = self.idir(it)
        os.makedirs(d, exist_ok=True)
        for name, data in it.files['cpp'].items():
            p = os.path.join(d, name)
            os.makedirs(os.path.dirname(p), exist_ok=True)
            with open(p, 'wb') as f:
                f.write(data)
        hdr = self.header_of(it)
        if hdr is None:
            return ('emitted-fail', 'no header emitted')
        with open(os.path.join(d, 'syntax.cpp'), 'w') as f:
            f.write('#include "%s"\nint main() { return 0; }\n' % hdr)
        rc, log = tools.run(CXX + ['-fsyntax-only', '-I', RT, '-I', d, os.path.join(d, 'syntax.cpp')], cwd=d)
        if rc != 0:
            return ('emitted-fail', log[-3000:])
        if not want_driver:
            return ('ok', '')
        try:
            src = Gen(it).driver(hdr)
        except Exception as e:
            return ('driver-fail', 'driver generation: %r' % (e,))
        with open(os.path.join(d, 'vdriver.cpp'), 'w') as f:
            f.write(src)
        rc, log = tools.run(CXX + SAN + ['-I', RT, '-I', d, os.path.join(d, 'vdriver.cpp'), '-o', os.path.join(d, 'vdriver')], cwd=d)
        if rc != 0:
            return ('driver-fail', log[-3000:])
        return ('ok', '')

    def prepare(self, items, want_drivers=True, jobs=16):
        with ThreadPoolExecutor(max_workers=jobs) as ex:
            for it, st in zip(items, ex.map(lambda it: self.build_one(it, want_drivers), items)):
                self.status[it.tag] = st

    def run(self, item, enc_ids, dec_cases):
        out = lanes.LaneOut()
        st, log = self.status.get(item.tag, ('not-run', ''))
        if st != 'ok':
            out.build = st
            out.log = log
            return out
        d = self.idir(item)
        cases = os.path.join(d, 'cases.txt')
        lanes.write_cases(cases, enc_ids, dec_cases)
        rc, text, fired = lanes.run_child([os.path.join(d, 'vdriver'), cases], d, os.path.join(d, 'run.log'), env=san_env())
        return lanes.finish_run(out, rc, text, fired)

    def selftest_one(self, it):
        d = self.idir(it)
        tests = [n for n in it.files['cpp'] if n.startswith('test/') and n.endswith('.cpp')]
        if not tests:
            return ('no-tests', '')
        rc, log = tools.run(CXX + SAN + ['-I', RT, '-I', d, os.path.join(d, tests[0]), '-o', os.path.join(d, 'selftest')], cwd=d)
        if rc != 0:
            return ('build-fail', log[-2500:])
        rc, text, fired = lanes.run_child([os.path.join(d, 'selftest')], d, os.path.join(d, 'selftest.log'), env=san_env())
        names = [l.split(' ')[1] for l in text.split('\n') if l.startswith('TEST ') and l.endswith(' BEGIN')]
        if fired:
            return ('watchdog', text[-500:], names)
        if rc == 0 and 'DONE' in text:
            return ('pass', '', names)
        return ('test-fail', text[-2000:], names)

    def run_selftests(self, items, jobs=16):
        res = {}
        with ThreadPoolExecutor(max_workers=jobs) as ex:
            for it, r in zip(items, ex.map(self.selftest_one, items)):
                res[it.tag] = r
        return res

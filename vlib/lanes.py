"""Common lane plumbing: items, case files, driver output parsing, child execution under a watchdog."""
import json
import os
import subprocess

from . import refmodel, spec as specmod


class Item:
    """one protocol with its emitted files and workload."""

    def __init__(self, proto, text):
        self.proto = proto
        self.text = text
        self.tag = proto.tag
        self.files = {}      # lang -> {name: bytes}
        self.msgs = []       # [(shape, msg)]
        self.ref = []        # [(bytes, layout, decoded_expected, cksum_inputs)]
        self.names = {}      # identifier -> (snake, camel, lowerCamel)
        self.feats = specmod.features(proto)

    def all_identifiers(self):
        ids = set()
        p = self.proto
        for pk in p.packets:
            ids.add(pk.name)
            fl = []
            specmod.walk_fields(p, pk.fields, (), fl)
            for f, _ in fl:
                ids.add(f.name)
                if f.kind == 'ref':
                    ids.add(f.packet)
        for _, ents in p.metadata:
            for e in ents:
                ids.add(e.name)
        return ids

    def snake(self, n):
        return self.names[n][0]

    def camel(self, n):
        return self.names[n][1]

    def lower(self, n):
        return self.names[n][2]

    def compute_ref(self):
        self.ref = []
        keep = []
        self.dropped_msgs = 0
        for shape, m in self.msgs:
            enc = refmodel.Encoder(self.proto)
            try:
                b, lay, dec = enc.encode_root(m)
            except refmodel.LenOverflow:
                self.dropped_msgs += 1     # the property is not defined for a target longer than its length field can express
                continue
            keep.append((shape, m))
            self.ref.append((b, lay, dec, enc.cksum_inputs))
        self.msgs = keep


class LaneOut:
    def __init__(self):
        self.build = 'ok'       # ok | emitted-fail | driver-fail | not-run
        self.log = ''
        self.enc = {}           # i -> hex | ('ERR', text)
        self.appended = {}      # i -> hex of the readable bytes after: encode m0, encode m0, decode one, encode mi | ('ERR'|'SKIP', text)
        self.toggled = {}       # i -> {'ENCU': hex with the checksum registry emptied, 'ENCG': hex after it was restored}
        self.dec = {}           # id -> (rem, dumpstr) | ('ERR', text)
        self.reenc = {}         # id -> hex | ('ERR', text)
        self.ckin = {}          # i -> [(name, hex)]
        self.patches = {}       # i -> [..]
        self.trace = {}
        self.crash = None       # (last BEGIN, rc, tail)
        self.done = False
        self.rc = None


def write_cases(path, enc_ids, dec_cases):
    with open(path, 'w') as f:
        for i in enc_ids:
            if isinstance(i, tuple):    # ('U', i): encode with the checksum registry emptied, then restored; ('A', i): append to a buffer in use
                f.write('%s %d\n' % i)
            else:
                f.write('E %d\n' % i)
        for case in dec_cases:
            if len(case) == 3:      # reuse case: decode the first bytes, then the second bytes INTO THE SAME OBJECT
                cid, a, b = case
                f.write('R %s %s %s\n' % (cid, a.hex() if a else '-', b.hex() if b else '-'))
            else:
                cid, data = case
                f.write('D %s %s\n' % (cid, data.hex() if data else '-'))


def parse_driver_output(text, out):
    last = None
    for line in text.split('\n'):
        if not line:
            continue
        parts = line.split(' ', 2)
        tag = parts[0]
        if tag == 'BEGIN':
            last = line
        elif tag == 'ENC':
            out.enc[int(parts[1])] = parts[2] if len(parts) > 2 else ''
        elif tag == 'ENCERR':
            out.enc[int(parts[1])] = ('ERR', parts[2] if len(parts) > 2 else '')
        elif tag == 'ENCA':
            v = parts[2] if len(parts) > 2 else ''
            out.appended[int(parts[1])] = ('SKIP', v[5:]) if v.startswith('SKIP ') else ('ERR', v[4:]) if v.startswith('ERR ') else v
        elif tag in ('ENCU', 'ENCG'):
            v = parts[2] if len(parts) > 2 else ''
            out.toggled.setdefault(int(parts[1]), {})[tag] = ('ERR', v[4:]) if v.startswith('ERR ') else v
        elif tag == 'CKIN':
            nm, hx = (parts[2].split(' ', 1) + [''])[:2]
            out.ckin.setdefault(int(parts[1]), []).append((nm, hx))
        elif tag == 'PATCH':
            out.patches.setdefault(int(parts[1]), []).append(parts[2])
        elif tag == 'DEC':
            rem, _, dump = (parts[2] if len(parts) > 2 else '').partition(' ')
            out.dec[parts[1]] = (int(rem), dump)
        elif tag == 'DECERR':
            out.dec[parts[1]] = ('ERR', parts[2] if len(parts) > 2 else '')
        elif tag == 'REENC':
            out.reenc[parts[1]] = parts[2] if len(parts) > 2 else ''
        elif tag == 'REENCERR':
            out.reenc[parts[1]] = ('ERR', parts[2] if len(parts) > 2 else '')
        elif tag == 'TRACE':
            try:
                out.trace = json.loads(line[6:])
            except Exception:
                pass
        elif tag == 'DONE':
            out.done = True
    return last


WATCHDOG_S = 120


def run_child(cmd, cwd, outpath, env=None, timeout=WATCHDOG_S):
    """run under `timeout -s QUIT`, stdout+stderr to a file; returns (rc, text, watchdog_fired)."""
    with open(outpath, 'wb') as f:
        try:
            p = subprocess.run(['timeout', '-s', 'QUIT', '-k', '5', str(timeout)] + cmd, cwd=cwd, env=env, stdout=f, stderr=subprocess.STDOUT)
            rc = p.returncode
        except Exception as e:   # pragma: no cover
            return -999, 'spawn failed: %r' % (e,), False
    with open(outpath, 'rb') as f:
        text = f.read().decode('utf-8', 'replace')
    fired = rc in (124, 137) or (rc == 131)
    return rc, text, fired


def finish_run(out, rc, text, fired):
    out.rc = rc
    last = parse_driver_output(text, out)
    if not out.done:
        tail = text[-1500:]
        out.crash = (last, rc, tail, fired)
    return out

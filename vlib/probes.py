"""Probe lane: each open known finding carries a concrete failing input; it is re-run every time.
still fails with the recorded symptom -> KNOWN-FINDING line; fails differently -> VIOLATION; passes -> silent."""


def run_probes(ctx, prop):
    for fd in ctx.findings_db:
        if fd.get('status') != 'open' or prop not in fd.get('properties', []):
            continue
        pr = fd.get('probe')
        if not pr:
            continue
        fn = PROBERS.get(pr.get('kind'))
        if fn is None:
            ctx.notes.append('finding %s: no prober for kind %r' % (fd['id'], pr.get('kind')))
            continue
        try:
            res = fn(ctx, prop, fd, pr)
        except Exception as e:   # a prober fault is a harness fault
            ctx.inconc('probe %s raised %r' % (fd['id'], e))
            continue
        ctx.counters['probe_lane_cases'] += 1
        if res is None:
            ctx.notes.append('finding %s no longer reproduces' % fd['id'])
        elif res[0] == 'same':
            ctx.known_finding(fd['id'], fd['what'])
        else:
            ctx.violation((prop, 'probe', fd['id']), 'probe of %s fails differently from its recorded symptom: %s' % (fd['id'], res[1]), {'finding': fd, 'observed': res[1]})


PROBERS = {}


def prober(kind):
    def deco(fn):
        PROBERS[kind] = fn
        return fn
    return deco

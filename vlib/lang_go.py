"""Go lane: one module, one package per protocol; emitted packages built first, drivers second."""
import os
import re
import shutil

from . import lanes, tools

NAME = 'go'
RUNTIME = os.path.join(tools.VERIF, 'runtimes', 'go')
GOTYPE = {'u8': 'uint8', 'u16': 'uint16', 'u32': 'uint32', 'u64': 'uint64', 'i8': 'int8', 'i16': 'int16',
          'i32': 'int32', 'i64': 'int64', 'f32': 'float32', 'f64': 'float64'}


def gostr(s):
    return 'string(hx("%s"))' % s.encode('utf-8').hex()


class Gen:
    def __init__(self, item):
        self.it = item
        self.p = item.proto
        self.L = []
        self.tmp = 0

    def T(self, name):
        return 'm.' + name     # emitted Go uses the raw packet name as the type name

    def newtmp(self):
        self.tmp += 1
        return 't%d' % self.tmp

    def build_fields(self, var, fields, msg):
        for f in fields:
            e = self.p.eff(f)
            attr = '%s.%s' % (var, self.it.camel(f.name))
            v = msg[f.name]
            if f.repeat:
                for x in v:
                    self.L.append('\t%s = append(%s, %s)' % (attr, attr, self.value(f, e, x)))
            else:
                self.L.append('\t%s = %s' % (attr, self.value(f, e, v)))

    def value(self, f, e, v):
        k = e.kind
        if k in ('num', 'len', 'cksum'):
            t = GOTYPE[e.ntype]
            if e.ntype == 'f32':
                return 'math.Float32frombits(0x%x)' % v
            if e.ntype == 'f64':
                return 'math.Float64frombits(0x%x)' % v
            return '%s(%d)' % (t, v)
        if k == 'char':
            return str(v)
        if k in ('fix', 'dyn'):
            return gostr(v)
        if k in ('ref', 'inline', 'match'):
            if k == 'ref':
                tn, fl, body = f.packet, self.p.packet(f.packet).fields, v
            elif k == 'inline':
                tn, fl, body = f.name, e.fields, v
            else:
                tn, fl, body = v[0], self.p.packet(v[0]).fields, v[1]
            t = self.newtmp()
            self.L.append('\t%s := &%s{}' % (t, self.T(tn)))
            self.build_fields(t, fl, body)
            return t
        raise ValueError(k)

    def dump_funcs(self):
        L = self.L
        done = set()

        def dump_fields(tname, fields):
            if tname in done:
                return
            done.add(tname)
            subs = []
            L.append('func dump_%s(o *%s) string {' % (tname, self.T(tname)))
            L.append('\tif o == nil { return "null" }')
            L.append('\tvar sb strings.Builder')
            L.append('\tsb.WriteString("{")')
            for f in fields:
                e = self.p.eff(f)
                acc = 'o.%s' % self.it.camel(f.name)
                L.append('\tsb.WriteString("%s=")' % f.name)
                if f.repeat:
                    L.append('\tsb.WriteString("[")')
                    L.append('\tfor i, x := range %s { if i > 0 { sb.WriteString(",") }; sb.WriteString(%s) }' % (acc, self.dump_one(f, e, 'x', subs)))
                    L.append('\tsb.WriteString("]")')
                else:
                    L.append('\tsb.WriteString(%s)' % self.dump_one(f, e, acc, subs))
                L.append('\tsb.WriteString(";")')
            L.append('\tsb.WriteString("}")')
            L.append('\treturn sb.String()')
            L.append('}')
            for nm, fl in subs:
                dump_fields(nm, fl)
        for pk in self.p.packets:
            dump_fields(pk.name, pk.fields)
        L.append('func dump_dyn(o codec.BinaryCodec) string {')
        L.append('\tif o == nil { return "null" }')
        L.append('\tswitch x := o.(type) {')
        for pk in self.p.packets:
            L.append('\tcase *%s: return "<%s>" + dump_%s(x)' % (self.T(pk.name), pk.name, pk.name))
        L.append('\t}')
        L.append('\treturn fmt.Sprintf("<?%T>null", o)')
        L.append('}')

    def dump_one(self, f, e, acc, subs):
        k = e.kind
        if k in ('num', 'len', 'cksum'):
            if e.ntype == 'f32':
                return 'fmt.Sprintf("f%%08x", math.Float32bits(%s))' % acc
            if e.ntype == 'f64':
                return 'fmt.Sprintf("f%%016x", math.Float64bits(%s))' % acc
            return 'fmt.Sprintf("%%d", %s)' % acc
        if k == 'char':
            return 'fmt.Sprintf("%%d", %s)' % acc
        if k in ('fix', 'dyn'):
            return '"s" + hex.EncodeToString([]byte(%s))' % acc
        if k == 'ref':
            return 'dump_%s(%s)' % (f.packet, acc)
        if k == 'inline':
            subs.append((f.name, e.fields))
            return 'dump_%s(%s)' % (f.name, acc)
        if k == 'match':
            return 'dump_dyn(%s)' % acc
        raise ValueError(k)

    def driver(self, pkgpath):
        it = self.it
        root = self.p.root
        L = self.L
        L.append('package main')
        L.append('import (\n\t"bufio"\n\t"bytes"\n\t"encoding/hex"\n\t"encoding/json"\n\t"fmt"\n\t"math"\n\t"os"\n\t"strings"\n\t"github.com/xinchentechnote/fin-proto-go/codec"\n\tm "%s"\n)' % pkgpath)
        L.append('var _ = math.Pi\nvar _ = strings.Repeat\nvar _ codec.BinaryCodec\nvar _ = hex.EncodeToString')
        L.append('func hx(s string) []byte { b, _ := hex.DecodeString(s); return b }')
        for i, (shape, msg) in enumerate(it.msgs):
            L.append('func build%d() *%s {' % (i, self.T(root.name)))
            L.append('\tr := &%s{}' % self.T(root.name))
            self.build_fields('r', root.fields, msg)
            L.append('\treturn r')
            L.append('}')
        L.append('var builders = []func() *%s{%s}' % (self.T(root.name), ', '.join('build%d' % i for i in range(len(it.msgs)))))
        self.dump_funcs()
        L.append(MAIN.replace('@ROOT@', self.T(root.name)).replace('@DUMPROOT@', 'dump_' + root.name))
        return '\n'.join(L) + '\n'


MAIN = r'''
func clean(s string) string {
	s = strings.ReplaceAll(s, "\n", " ")
	if len(s) > 300 { s = s[:300] }
	return s
}
func doEnc(out *bufio.Writer, i int) {
	codec.CkIn = codec.CkIn[:0]
	defer func() {
		if r := recover(); r != nil { fmt.Fprintf(out, "ENCERR %d PANIC: %s\n", i, clean(fmt.Sprint(r))) }
		for _, c := range codec.CkIn { fmt.Fprintf(out, "CKIN %d %s %s\n", i, c[0], c[1]) }
	}()
	obj := builders[i]()
	var buf bytes.Buffer
	if err := obj.Encode(&buf); err != nil {
		fmt.Fprintf(out, "ENCERR %d %s\n", i, clean(err.Error()))
		return
	}
	fmt.Fprintf(out, "ENC %d %s\n", i, hex.EncodeToString(buf.Bytes()))
}
func doEncU(out *bufio.Writer, i int) {
	for _, st := range []struct { tag string; on bool }{{"ENCU", false}, {"ENCG", true}} {
		codec.VerifSetRegistryEnabled(st.on)
		func() {
			defer func() {
				if r := recover(); r != nil { fmt.Fprintf(out, "%s %d ERR PANIC: %s\n", st.tag, i, clean(fmt.Sprint(r))) }
			}()
			obj := builders[i]()
			var buf bytes.Buffer
			if err := obj.Encode(&buf); err != nil {
				fmt.Fprintf(out, "%s %d ERR %s\n", st.tag, i, clean(err.Error()))
				return
			}
			fmt.Fprintf(out, "%s %d %s\n", st.tag, i, hex.EncodeToString(buf.Bytes()))
		}()
	}
	codec.VerifSetRegistryEnabled(true)
}
func doDec(out *bufio.Writer, cid string, data []byte) {
	var obj *@ROOT@
	ok := false
	func() {
		defer func() {
			if r := recover(); r != nil { fmt.Fprintf(out, "DECERR %s PANIC: %s\n", cid, clean(fmt.Sprint(r))) }
		}()
		buf := bytes.NewBuffer(append([]byte(nil), data...))
		obj = &@ROOT@{}
		if err := obj.Decode(buf); err != nil {
			fmt.Fprintf(out, "DECERR %s %s\n", cid, clean(err.Error()))
			return
		}
		fmt.Fprintf(out, "DEC %s %d %s\n", cid, buf.Len(), @DUMPROOT@(obj))
		ok = true
	}()
	if !ok { return }
	defer func() {
		if r := recover(); r != nil { fmt.Fprintf(out, "REENCERR %s PANIC: %s\n", cid, clean(fmt.Sprint(r))) }
	}()
	var b2 bytes.Buffer
	if err := obj.Encode(&b2); err != nil {
		fmt.Fprintf(out, "REENCERR %s %s\n", cid, clean(err.Error()))
		return
	}
	fmt.Fprintf(out, "REENC %s %s\n", cid, hex.EncodeToString(b2.Bytes()))
}
func doEncA(out *bufio.Writer, i int) {
	// a connection buffer in use: two copies of message 0 are written, the first is decoded (consumed), then message i is appended
	defer func() {
		if r := recover(); r != nil { fmt.Fprintf(out, "ENCA %d ERR PANIC: %s\n", i, clean(fmt.Sprint(r))) }
	}()
	var buf bytes.Buffer
	for k := 0; k < 2; k++ {
		if err := builders[0]().Encode(&buf); err != nil { fmt.Fprintf(out, "ENCA %d SKIP first: %s\n", i, clean(err.Error())); return }
	}
	if err := (&@ROOT@{}).Decode(&buf); err != nil { fmt.Fprintf(out, "ENCA %d SKIP decode: %s\n", i, clean(err.Error())); return }
	if err := builders[i]().Encode(&buf); err != nil { fmt.Fprintf(out, "ENCA %d ERR %s\n", i, clean(err.Error())); return }
	fmt.Fprintf(out, "ENCA %d %s\n", i, hex.EncodeToString(buf.Bytes()))
}
func doDecR(out *bufio.Writer, cid string, a, b []byte) {
	defer func() {
		if r := recover(); r != nil { fmt.Fprintf(out, "DECERR %s PANIC: %s\n", cid, clean(fmt.Sprint(r))) }
	}()
	obj := &@ROOT@{}
	func() {
		defer func() { recover() }()
		_ = obj.Decode(bytes.NewBuffer(append([]byte(nil), a...)))
	}()
	buf := bytes.NewBuffer(append([]byte(nil), b...))
	if err := obj.Decode(buf); err != nil {
		fmt.Fprintf(out, "DECERR %s %s\n", cid, clean(err.Error()))
		return
	}
	fmt.Fprintf(out, "DEC %s %d %s\n", cid, buf.Len(), @DUMPROOT@(obj))
}
func main() {
	f, err := os.Open(os.Args[1])
	if err != nil { panic(err) }
	sc := bufio.NewScanner(f)
	sc.Buffer(make([]byte, 1<<20), 1<<28)
	out := bufio.NewWriter(os.Stdout)
	for sc.Scan() {
		parts := strings.Fields(sc.Text())
		if len(parts) == 0 { continue }
		if parts[0] == "E" {
			var i int
			fmt.Sscanf(parts[1], "%d", &i)
			fmt.Fprintf(out, "BEGIN E %d\n", i); out.Flush()
			doEnc(out, i)
		} else if parts[0] == "A" {
			var i int
			fmt.Sscanf(parts[1], "%d", &i)
			fmt.Fprintf(out, "BEGIN A %d\n", i); out.Flush()
			doEncA(out, i)
		} else if parts[0] == "U" {
			var i int
			fmt.Sscanf(parts[1], "%d", &i)
			fmt.Fprintf(out, "BEGIN U %d\n", i); out.Flush()
			doEncU(out, i)
		} else if parts[0] == "R" {
			fmt.Fprintf(out, "BEGIN R %s\n", parts[1]); out.Flush()
			var a, b []byte
			if parts[2] != "-" { a = hx(parts[2]) }
			if parts[3] != "-" { b = hx(parts[3]) }
			doDecR(out, parts[1], a, b)
		} else if parts[0] == "D" {
			fmt.Fprintf(out, "BEGIN D %s\n", parts[1]); out.Flush()
			var data []byte
			if parts[2] != "-" { data = hx(parts[2]) }
			doDec(out, parts[1], data)
		}
		out.Flush()
	}
	tj, _ := json.Marshal(codec.TraceCounts)
	fmt.Fprintf(out, "TRACE %s\n", tj)
	fmt.Fprintf(out, "DONE\n")
	out.Flush()
}
'''


def parse_build_errors(log):
    """group `go build` diagnostics by package import path."""
    by = {}
    cur = None
    for line in log.split('\n'):
        m = re.match(r'^# (\S+)', line)
        if m:
            cur = m.group(1)
            by.setdefault(cur, [])
            continue
        if cur and line.strip():
            by[cur].append(line)
    return by


class Batch:
    """prepare() builds everything for a list of items; run() executes one item's driver."""

    def __init__(self, work):
        self.dir = os.path.join(work, 'go')
        os.makedirs(self.dir, exist_ok=True)
        self.status = {}    # tag -> ('ok'|'emitted-fail'|'driver-fail', log)
        self.pkg = {}
        self.tests = {}

    def gomod(self):
        with open(os.path.join(self.dir, 'go.mod'), 'w') as f:
            f.write('module verif\n\ngo 1.24.2\n\nrequire (\n\tgithub.com/stretchr/testify v1.11.1\n\tgithub.com/xinchentechnote/fin-proto-go v0.0.0\n)\n\n'
                    'replace github.com/xinchentechnote/fin-proto-go => %s\n' % RUNTIME)
        shutil.copy(os.path.join(tools.REPO, 'go.sum'), os.path.join(self.dir, 'go.sum'))

    def pkgdir(self, item):
        # GoModule option is "verif/<tag lower>"
        return item.tag.lower()

    def prepare(self, items, want_drivers=True):
        self.gomod()
        for it in items:
            d = os.path.join(self.dir, self.pkgdir(it))
            os.makedirs(d, exist_ok=True)
            for name, data in it.files['go'].items():
                p = os.path.join(d, name)
                os.makedirs(os.path.dirname(p), exist_ok=True)
                with open(p, 'wb') as f:
                    f.write(data)
        rc, log = tools.run([tools.go_bin(), 'build', './...'], cwd=self.dir, env=tools.go_env(), timeout=1200)
        errs = parse_build_errors(log)
        self.raw_log = log
        for it in items:
            key = 'verif/' + self.pkgdir(it)
            if key in errs:
                self.status[it.tag] = ('emitted-fail', '\n'.join(errs[key][:12]))
            else:
                self.status[it.tag] = ('ok', '')
        if rc != 0 and not errs:
            for it in items:
                self.status[it.tag] = ('emitted-fail', 'go build failed without per-package diagnostics:\n' + log[-800:])
        if not want_drivers:
            return
        drv = []
        for it in items:
            if self.status[it.tag][0] != 'ok':
                continue
            d = os.path.join(self.dir, 'drv_' + self.pkgdir(it))
            os.makedirs(d, exist_ok=True)
            try:
                src = Gen(it).driver('verif/' + self.pkgdir(it))
            except Exception as e:
                self.status[it.tag] = ('driver-fail', 'driver generation: %r' % (e,))
                continue
            with open(os.path.join(d, 'main.go'), 'w') as f:
                f.write(src)
            drv.append(it)
        if drv:
            os.makedirs(os.path.join(self.dir, 'bin'), exist_ok=True)
            rc, log = tools.run([tools.go_bin(), 'build', '-o', 'bin/'] + ['./drv_' + self.pkgdir(it) for it in drv], cwd=self.dir, env=tools.go_env(), timeout=1200)
            errs = parse_build_errors(log)
            for it in drv:
                key = 'verif/drv_' + self.pkgdir(it)
                if key in errs or not os.path.exists(os.path.join(self.dir, 'bin', 'drv_' + self.pkgdir(it))):
                    self.status[it.tag] = ('driver-fail', '\n'.join(errs.get(key, [log[-500:]])[:12]))

    def run(self, item, enc_ids, dec_cases):
        out = lanes.LaneOut()
        st, log = self.status.get(item.tag, ('not-run', ''))
        if st != 'ok':
            out.build = st
            out.log = log
            return out
        d = os.path.join(self.dir, 'drv_' + self.pkgdir(item))
        cases = os.path.join(d, 'cases.txt')
        lanes.write_cases(cases, enc_ids, dec_cases)
        rc, text, fired = lanes.run_child([os.path.join(self.dir, 'bin', 'drv_' + self.pkgdir(item)), cases], d, os.path.join(d, 'run.log'))
        return lanes.finish_run(out, rc, text, fired)

    def run_selftests(self, items):
        """C17: go test over the emitted *_test.go files; returns tag -> (status, detail)."""
        res = {}
        pk = ['./' + self.pkgdir(it) for it in items]
        if not pk:
            return res
        rc, log = tools.run([tools.go_bin(), 'test', '-count=1', '-vet=off'] + pk, cwd=self.dir, env=tools.go_env(), timeout=1800)
        self.test_log = log
        by = {}
        cur = None
        for line in log.split('\n'):
            m = re.match(r'^(ok|FAIL|---|\?)\s+(verif/\S+)', line)
            if m and m.group(1) in ('ok', 'FAIL', '?'):
                by.setdefault(m.group(2), []).append(line)
        blocks = parse_build_errors(log)
        for it in items:
            key = 'verif/' + self.pkgdir(it)
            lines = by.get(key, [])
            berr = blocks.get(key + '_test') or blocks.get(key) or blocks.get(key + ' [' + key + '.test]')
            for k2, v2 in blocks.items():
                if k2.startswith(key + ' ') or k2 == key:
                    berr = v2
            if any(l.startswith('ok') for l in lines):
                res[it.tag] = ('pass', '')
            elif any('[build failed]' in l or '[setup failed]' in l for l in lines):
                res[it.tag] = ('build-fail', '\n'.join((berr or lines)[:10]))
            elif any(l.startswith('FAIL') for l in lines):
                i = log.find(key)
                res[it.tag] = ('test-fail', log[max(0, i - 1500):i + 200])
            elif any(l.startswith('?') for l in lines):
                res[it.tag] = ('no-tests', lines[0])
            else:
                res[it.tag] = ('unknown', '\n'.join((berr or [])[:10]))
        return res

"""Hostile / exhaustive-shape DSL texts for C11 (and reused by C16): (a) every grammar optional present/absent,
(b) semantically ill-formed programs, (c) byte-level abuse.  Each text carries a label (its class)."""
import itertools
import copy
import random

from . import dslprint, faults, gen

TYPES = ['u8', 'uint16', 'i64', 'f32', 'float64', 'char', 'char[4]', 'zchar[3]', 'string', 'char[]', 'char[0]', 'zchar[0]']
ATTRS = ['@leftPad(\'0\')', '@rightPad(\' \')', '@leftPad()', "@rightPad('\\x00')", '@tag(7)', '@lengthOf(Tgt)', '@calculatedFrom("CRC32")',
         '@lengthOf(Nope)', '@calculatedFrom("")']


def field_forms():
    """(label, text of one field declaration) for every fieldDefinition alternative x optional elements."""
    out = []
    for t in TYPES:
        for rep in ('', 'repeat '):
            for doc in ('', ' `d`'):
                out.append(('metafield', '%s%s Fa%s,' % (rep, t, doc)))
    for rep in ('', 'repeat '):
        for nm in ('', ' Fb'):
            for doc in ('', ' `d`'):
                out.append(('objectfield', '%sSub%s%s,' % (rep, nm, doc)))
                out.append(('objectfield-meta', '%sMeta1%s%s,' % (rep, nm, doc)))
                out.append(('objectfield-unknown', '%sNoSuch%s%s,' % (rep, nm, doc)))
    for rep in ('', 'repeat '):
        out.append(('inline', '%sInl { u8 Xa, string Ya `d`, },' % rep))
        out.append(('inline-nested', '%sInl { Deep { u8 Za, }, repeat Deeper { Sub, }, },' % rep))
        out.append(('inline-with-len', '%sInl { u16 Ln @lengthOf(Xb), Sub Xb, },' % rep))
        out.append(('inline-with-cksum', '%sInl { u8 Xa, u32 Ck @calculatedFrom("CRC32"), },' % rep))
        out.append(('inline-with-match', '%sInl { u8 Kk, match Kk as Bb { 1 : Sub, }, },' % rep))
    for ty in ('', 'u16 ', 'u8 ', 'i32 ', 'f32 ', 'string ', 'char[2] '):
        for doc in ('', ' `d`'):
            out.append(('lenfield', '%sLn @lengthOf(Tgt)%s,' % (ty, doc)))
            out.append(('cksumfield', '%sCk @calculatedFrom("CRC32")%s,' % (ty, doc)))
    out.append(('lenfield-meta', 'Meta2 @lengthOf(Tgt),'))
    out.append(('lenfield-self', 'u16 Ln @lengthOf(Ln),'))
    out.append(('lenfield-scalar-target', 'u16 Ln @lengthOf(Key),'))
    for pairs in ('1 : Sub,', '1 : Sub', '"A" : Sub,', '[1,2] : Sub, 3 : Other,', '[1] : Sub', '["A","B"] : Sub,', '[1,"A"] : Sub,', '1 : NoSuch,',
                  '1 : Sub, 1 : Other,', '99999999999999999999999999999 : Sub,', '[1,2,3,4,5,6,7,8,9,10,11] : Sub,'):
        out.append(('match', 'match Key as Body { %s },' % pairs))
    out.append(('match-unknown-key', 'match Nokey as Body { 1 : Sub, },'))
    out.append(('match-key-is-object', 'match Tgt as Body { 1 : Sub, },'))
    out.append(('match-self', 'match Body as Body { 1 : Sub, },'))
    return out


def shape_texts():
    """(a): small texts with each optional element present/absent, each field form alone and with each attribute."""
    out = []
    header = 'MetaData M { u32 Meta1 `m`, u16 Meta2 `m`, Meta1 Meta3 `r`, }\npacket Sub { u8 A, }\npacket Other { }\n'
    forms = field_forms()
    for label, f in forms:
        for root in ('root ', ''):
            body = 'u16 Key,\n    %s\n    Sub Tgt,' % f
            out.append(('shape/' + label, '%s%spacket P {\n    %s\n}\n' % (header, root, body)))
    for (label, f), a in itertools.product(forms, ATTRS):
        if label.startswith(('metafield',)) and 'repeat' in f and a.startswith('@tag'):
            continue
        body = 'u16 Key,\n    %s\n    %s\n    Sub Tgt,' % (a, f)
        out.append(('shape-attr/%s/%s' % (label, a.split('(')[0]), '%sroot packet P {\n    %s\n}\n' % (header, body)))
    for a1, a2 in itertools.combinations(ATTRS[:7], 2):
        out.append(('shape-2attr', '%sroot packet P { u16 Key, %s %s char[4] Fa, Sub Tgt, }\n' % (header, a1, a2)))
    # options
    vals = ['u8', 'string', 'char[4]', '"s"', '12', "'0'", "' '", "'\\x00'", 'true', 'false', '""', '99999999999999999999999']
    names = ['StringPrefixLenType', 'ArrayPrefixLenType', 'LittleEndian', 'JavaPackage', 'GoPackage', 'GoModule', 'FixedStringPadFromLeft', 'FixedStringPadChar', 'Bogus']
    for n, v in itertools.product(names, vals):
        for semi in (';', ''):
            out.append(('options/%s' % n, 'options { %s = %s%s }\nroot packet P { char[3] A, string B, repeat u8 C, }\n' % (n, v, semi)))
    out.append(('options/empty', 'options { }\nroot packet P { u8 A, }'))
    out.append(('options/twice', 'options { LittleEndian = true; }\noptions { LittleEndian = false; }\nroot packet P { u8 A, }'))
    # metadata
    for body in ('', 'u8 A `d`,', 'u8 A,', 'A B `d`,', 'A B,', 'u8 A `d`, A B `r`, B C `r2`,', 'u8 A `d`, u8 A `d`,', 'char[3] A `d`, zchar[2] Z `z`, string S `s`, char[] T `t`, f64 F `f`,',
                 'NoSuch B `d`,', 'B B `self`,'):
        out.append(('metadata', 'MetaData M { %s }\nroot packet P { u8 X, }\n' % body))
        out.append(('metadata-used', 'MetaData M { %s }\nroot packet P { A, B, repeat A Aa, @leftPad(\'0\') A Ab, }\n' % body))
    # packets
    for t in ('', 'packet P { }', 'root packet P { }', 'packet P { } packet P { }', 'root packet P { } root packet Q { }', 'packet P { u8 A, }',
              'packet root { u8 packet, }', 'packet P { u8 repeat, }', 'packet P { match match as as { 1 : P, }, }'):
        out.append(('packets', t))
    return out


def semantic_texts(seed, quick):
    """(b)"""
    out = []
    # no root x each target is exercised by compiling every text with all six targets
    rec = [
        ('recursive/self', 'root packet A { u8 X, A Next, }'),
        ('recursive/self-repeat', 'root packet A { u8 X, repeat A Kids, }'),
        ('recursive/mutual', 'root packet A { B Bb, }\npacket B { A Aa, }'),
        ('recursive/mutual-repeat', 'root packet A { repeat B Bs, }\npacket B { repeat A As, }'),
        ('recursive/match', 'root packet A { u8 K, match K as Body { 1 : A, }, }'),
        ('recursive/inline', 'root packet A { In { A Again, }, }'),
        ('recursive/three', 'root packet A { B Bb, }\npacket B { C Cc, }\npacket C { A Aa, }'),
        # TLV-style nesting: a packet reaches itself only through a match alternative that is NOT the first pair. The sample-value
        # emitters follow the first pair only, so the unchanged tree compiles these; no recorded finding covers them (round 7, C11l)
        ('nesting/match-later-pair-self', 'root packet A { u8 K, match K as Body { 1 : L, 2 : A, }, }\npacket L { u32 V, }'),
        ('nesting/match-later-pair-group', 'root packet F { u16 Len @lengthOf(Body), u8 K, match K as Body { 1 : L, 2 : G, }, }\npacket L { u32 V, }\n'
                                           'packet G { u8 K2, match K2 as Item { 1 : L, 2 : G, }, }'),
        ('nesting/match-later-pair-mutual', 'root packet A { u8 K, match K as Body { 1 : L, 2 : B, }, }\npacket L { u8 V, }\n'
                                            'packet B { u8 K2, match K2 as Inner { 1 : L, 2 : A, 3 : B, }, }'),
        ('nesting/match-later-pair-list', 'root packet A { string K, match K as Body { "l" : L, ["a", "b"] : A, }, }\npacket L { }'),
        ('nesting/match-later-pair-via-object', 'root packet A { u8 K, match K as Body { 1 : L, 2 : W, }, }\npacket L { u8 V, }\npacket W { u8 N, repeat L Ls, Tail { u8 K3, match K3 as P { 1 : L, 7 : A, }, }, }'),
        ('noroot/multi', 'packet A { u8 X, B Bb, }\npacket B { string S, }'),
        ('noroot/match', 'packet A { u8 K, match K as Body { 1 : B, }, }\npacket B { }'),
        ('root-only-empty', 'root packet A { }'),
        ('digits/huge-char', 'root packet A { char[99999999999999999999999999999] X, }'),
        ('digits/huge-zchar', 'root packet A { zchar[18446744073709551616] X, }'),
        ('digits/huge-tag', 'root packet A { @tag(99999999999999999999999999999) u8 X, }'),
        ('digits/big-char', 'root packet A { char[3000000] X, }'),
        ('key-type-mismatch', 'root packet A { u8 K, match K as Body { "A" : B, }, }\npacket B { }'),
        ('key-string-int', 'root packet A { string K, match K as Body { 1 : B, }, }\npacket B { }'),
        ('key-after-match', 'root packet A { match K as Body { 1 : B, }, u8 K, }\npacket B { }'),
        ('key-float', 'root packet A { f32 K, match K as Body { 1 : B, }, }\npacket B { }'),
        ('key-repeat', 'root packet A { repeat u8 K, match K as Body { 1 : B, }, }\npacket B { }'),
        ('len-target-repeat', 'root packet A { u16 L @lengthOf(Bs), repeat B Bs, }\npacket B { u8 X, }'),
        ('len-target-string', 'root packet A { u16 L @lengthOf(S), string S, }'),
        ('len-after-target', 'root packet A { B Body, u16 L @lengthOf(Body), }\npacket B { u8 X, }'),
        ('len-signed', 'root packet A { i32 L @lengthOf(Body), B Body, }\npacket B { u8 X, }'),
        ('len-float', 'root packet A { f64 L @lengthOf(Body), B Body, }\npacket B { u8 X, }'),
        ('len-notype', 'root packet A { L @lengthOf(Body), B Body, }\npacket B { u8 X, }'),
        ('cksum-notype', 'root packet A { u8 X, C @calculatedFrom("CRC32"), }'),
        ('cksum-float', 'root packet A { u8 X, f32 C @calculatedFrom("CRC32"), }'),
        ('cksum-string', 'root packet A { u8 X, string C @calculatedFrom("CRC32"), }'),
        ('two-len-same-target', 'root packet A { u16 L1 @lengthOf(Body), u16 L2 @lengthOf(Body), B Body, }\npacket B { }'),
        ('field-named-like-packet', 'root packet A { u8 B, B, }\npacket B { }'),
        ('packet-named-like-meta', 'MetaData M { u8 B `d`, }\nroot packet A { B, }\npacket B { }'),
        ('meta-ref-cycle', 'MetaData M { B A `a`, A B `b`, }\nroot packet P { A, B, }'),
        ('pad-on-everything', "root packet A { @leftPad('0') u8 X, @rightPad() string S, @leftPad(' ') B Bb, @leftPad('0') repeat char[3] C, }\npacket B { }"),
        ('inline-empty-name-clash', 'root packet A { In { u8 X, }, In2 { In { u8 Y, }, }, }'),
        ('keywords-as-names', 'root packet packet { u8 root, string match, repeat u8 repeat, }'),
        ('options-after-packet', 'root packet A { u8 X, }\noptions { LittleEndian = true; }\nMetaData M { u8 Z `z`, }'),
        ('unicode-doc', 'root packet A { u8 X `消息类型 \U0001F600`, }'),
        ('unicode-string-key', 'root packet A { string K, match K as Body { "消息" : B, }, }\npacket B { }'),
        ('string-escapes', 'root packet A { string K, match K as Body { "a\\"b\\\\c" : B, }, u32 C @calculatedFrom("x\\"y"), }\npacket B { }'),
        ('crlf', 'root packet A {\r\n    u8 X, // c\r\n}\r\n'),
        ('ident/snake-packets', 'root packet order_entry { u8 msg_type, match msg_type as msg_body { 1 : logon_req, 2 : Heartbeat, }, sub_order an_item, repeat sub_order, }\npacket logon_req { string user_name, }\npacket Heartbeat { }\npacket sub_order { u8 x, }'),
        ('ident/lower-packets', 'root packet orderEntry { u8 msgType, match msgType as msgBody { 1 : logonReq, }, subOrder item, }\npacket logonReq { string userName, }\npacket subOrder { inner { u8 x, }, }'),
        ('ident/caps-packets', 'root packet ORDER { u8 KIND, match KIND as BODY { 1 : LOGON, }, SUB ITEM, }\npacket LOGON { string USER, }\npacket SUB { u8 X, }'),
        ('ident/digits', 'root packet Order2 { u8 Kind3, match Kind3 as Body4 { 1 : Logon5, }, Sub6 Item7, }\npacket Logon5 { string User8, }\npacket Sub6 { u8 X9, }'),
    ]
    rec += [
        ('ident/underscores', 'root packet A { u8 _, u16 __, string _x, u8 x_, B _b, repeat B __bs, In_ { u8 _, }, }\npacket B { u8 a_b_c, u8 a__b, }'),
        ('ident/underscore-packet', 'root packet _ { u8 K, match K as __ { 1 : _p, }, }\npacket _p { u8 _, }'),
        ('ident/single-letters', 'root packet a { u8 b, c d, match b as e { 1 : c, }, repeat c, g { u8 h, }, }\npacket c { u8 f, }'),
        ('ident/long', 'root packet %s { u8 %s, }' % ('P' + 'a' * 300, 'f' + 'b' * 300)),
    ]
    longkey = '"' + 'K' * 150 + '"'
    rec += [
        ('long/string-key-in-list', 'root packet A { string K, match K as B { [%s, "b", "c", "d", "e", "f", "g"] : C, ["h", %s] : C, %s : C, }, }\npacket C { }' % (longkey, longkey.replace('K', 'L'), longkey.replace('K', 'M'))),
        ('long/digits-key-list', 'root packet A { u64 K, match K as B { [%s] : C, }, }\npacket C { }' % ', '.join(str(10 ** 18 + i) for i in range(40))),
        ('long/doc', 'root packet A { u8 X `%s`, }' % ('d' * 5000)),
        ('long/option-string', 'options { JavaPackage = "%s"; GoPackage = "%s"; }\nroot packet A { u8 X, }' % ('a.' * 400 + 'b', 'p' * 900)),
        ('long/many-attributes', 'root packet A { %s char[4] X, }' % ' '.join("@tag(%d) @leftPad('0')" % i for i in range(60))),
    ]
    # every option with every kind of value the grammar allows (legal and illegal ones, the empty string, one character)
    optvals = ['""', '"a"', '"ab"', '0', '7', '00', 'true', 'false', 'u8', 'u64', 'i16', 'f32', 'char', 'string', 'char[]', 'char[3]', 'zchar[0]', "' '", "'0'", "'\\x00'", '"\' \'"', '"u16"', '"true"']
    for on in ['StringPrefixLenType', 'ArrayPrefixLenType', 'LittleEndian', 'FixedStringPadChar', 'FixedStringPadFromLeft', 'JavaPackage', 'GoPackage', 'GoModule', 'NoSuchOption', 'littleendian']:
        for ov in optvals:
            rec.append(('option-value/%s' % on, 'options { %s = %s; }\nroot packet A { char[4] X, string S, repeat u8 L, zchar[2] Z, }' % (on, ov)))
    from .checks_robust import WELLFORMED_TEXTS      # unusual but legal texts: here only "no crash in any generator" is asked
    rec += [('wellformed/' + k, t) for k, t in WELLFORMED_TEXTS]
    out += rec
    bases = [p for p in gen.matrix_protos() if p.tag.startswith(('Ml', 'Mm', 'Md', 'Mo'))]
    rng = random.Random('%s/sem' % seed)
    rng.shuffle(bases)
    for base in bases[:(6 if quick else 60)]:
        for fl in faults.inject_all(base):
            out.append(('fault/' + fl.cls, dslprint.layout(dslprint.tokens(fl.proto), 'pretty')[0]))
    # MetaData faults at every entry of every matrix protocol that has a MetaData block (entries typing plain, repeated, padded fields
    # and type-less length / checksum fields): alias to an undeclared entry, alias to an entry declared later, entry missing, alias to itself
    def typeless(p):
        return any(f.kind in ('len', 'cksum') and not f.typed for pk in p.packets for f in pk.fields)
    withmeta = [p for p in gen.matrix_protos() if p.metadata]
    for base in [p for i, p in enumerate(withmeta) if not quick or i % 2 == 0 or typeless(p)]:
        for bi, (bname, ents) in enumerate(base.metadata):
            for ei in range(len(ents)):
                for kind in ('dangling', 'forward', 'removed', 'self'):
                    p2 = copy.deepcopy(base)
                    es = p2.metadata[bi][1]
                    if kind == 'dangling':
                        es[ei].base, es[ei].ref = None, 'NoSuchEntry'
                    elif kind == 'forward':
                        if ei + 1 >= len(es):
                            continue
                        es[ei].base, es[ei].ref = None, es[ei + 1].name
                    elif kind == 'self':
                        es[ei].base, es[ei].ref = None, es[ei].name
                    else:
                        del es[ei]
                    try:
                        out.append(('metafault/' + kind, dslprint.layout(dslprint.tokens(p2), 'pretty')[0]))
                    except Exception:
                        pass    # the printer needs the entry (e.g. to inline its type): not every variant is printable
    return out


def byte_texts(seed, quick, valid_texts):
    """(c)"""
    rng = random.Random('%s/bytes' % seed)
    out = [('empty', b''), ('whitespace', b' \t\r\n  \n'), ('comment-only', b'// just a comment'), ('comment-only-nl', b'// c1\n// c2\n'),
           ('nul', b'\x00'), ('nul-inside', b'root packet A {\x00 u8 X, }'), ('bom', b'\xef\xbb\xbfroot packet A { u8 X, }'),
           ('invalid-utf8', b'root packet A { u8 X `\xff\xfe\xc0` , }'), ('invalid-utf8-ident', b'root packet \xc3\x28 { }'),
           ('lone-backtick', b'root packet A { u8 X `unterminated, }'), ('lone-quote', b'options { JavaPackage = "unterminated; }'),
           ('only-braces', b'{{{{}}}}'), ('only-close', b'}'), ('deep-brackets', b'[' * 5000), ('at', b'@'), ('at-name', b'@lengthOf('),
           ('single-line-64k', b'root packet A { ' + b'u8 X, ' * 10900 + b'}'),
           ('long-ident', b'root packet ' + b'A' * 65000 + b' { }'), ('long-doc', b'root packet A { u8 X `' + b'd' * 65000 + b'`, }'),
           ('many-packets', b''.join(b'packet P%d { u8 X, }\n' % i for i in range(3000))),
           ('many-comments', b'// c\n' * 20000 + b'root packet A { }')]
    for depth in ([10, 100] if quick else [10, 100, 300]):
        t = 'root packet A { ' + ''.join('I%d { ' % i for i in range(depth)) + 'u8 X, ' + '}, ' * depth + '}'
        out.append(('nest-%d' % depth, t.encode()))
    out.append(('nest-unclosed-5000', ('root packet A { ' + ''.join('I%d { ' % i for i in range(5000))).encode()))
    out.append(('nest-invalid-20000', ('root packet A { ' + '{ ' * 20000 + '} ' * 20000 + '}').encode()))
    out.append(('list-100k', ('root packet A { u32 K, match K as B { [' + ','.join(str(i) for i in range(100000)) + '] : P, }, }\npacket P { }').encode()))
    for vt in valid_texts[:(3 if quick else 12)]:
        b = vt.encode()
        step = 1 if len(b) < 700 else max(1, len(b) // 500)
        for i in range(0, len(b), step):
            out.append(('prefix', b[:i]))
        for _ in range(40 if quick else 300):
            i = rng.randrange(len(b))
            k = rng.random()
            if k < 0.3:
                out.append(('byte-flip', b[:i] + bytes([rng.randrange(256)]) + b[i + 1:]))
            elif k < 0.6:
                out.append(('byte-delete', b[:i] + b[i + 1:]))
            elif k < 0.8:
                j = rng.randrange(len(b))
                out.append(('chunk-swap', b[:min(i, j)] + b[max(i, j):] + b[min(i, j):max(i, j)]))
            else:
                out.append(('byte-insert', b[:i] + bytes(rng.randrange(256) for _ in range(rng.randint(1, 4))) + b[i:]))
    for _ in range(60 if quick else 1000):
        out.append(('random-bytes', bytes(rng.randrange(256) for _ in range(rng.randint(1, 200)))))
    toks = ['root', 'packet', 'MetaData', 'options', 'repeat', 'match', 'as', '{', '}', ',', ';', ':', '=', '[', ']', '(', ')', 'u8', 'string', 'char[', 'zchar[', 'char[]',
            '@lengthOf(', '@calculatedFrom(', '@tag(', '@leftPad', '@rightPad', "'0'", '"s"', '`d`', '7', 'A', 'B', 'true', '// c\n']
    for _ in range(300 if quick else 5000):
        out.append(('token-soup', ' '.join(rng.choice(toks) for _ in range(rng.randint(1, 40))).encode()))
    return out

"""Producer side shared by C01-C07/C15/C17: protocols -> emitted files -> lanes."""
import random
from concurrent.futures import ThreadPoolExecutor

from . import dslprint, gen, lanes, tools

SUFFIXES = (('n', b''), ('x', b'\xff'), ('r', b'\x01\x02\x03\x04\x05\x06\x07'))


def lane_class(lang):
    if lang == 'python':
        from . import lang_py
        return lang_py.Batch
    if lang == 'go':
        from . import lang_go
        return lang_go.Batch
    if lang == 'rust':
        from . import lang_rs
        return lang_rs.Batch
    if lang == 'java':
        from . import lang_java
        return lang_java.Batch
    if lang == 'cpp':
        from . import lang_cpp
        return lang_cpp.Batch
    raise KeyError(lang)


SPELL_SEED = 20260929     # fixed, like the protocol pools: which protocol is written in which spelling does not vary with VERIF_SEED


def spelled(p):
    """the text a wire lane compiles: about half of the protocols in the canonical spelling, the others with the meaning-preserving
    rewrites of C08 at random sites (aliases, string/char[], zchar vs NUL pad, explicit default pads/options, attribute placement,
    key lists, MetaData-typed vs inlined, separators, leading-zero lengths) plus inert @tag(n) attributes, in a random layout."""
    rng = random.Random('%s/%s/spell' % (SPELL_SEED, p.tag))
    if rng.random() < 0.5 or getattr(p, 'canonical_only', False):
        return dslprint.render(p)
    sp = dslprint.Spelling(rng=rng, p=0.5, tag_attr=True, doc_toggle=rng.random() < 0.5)
    toks = dslprint.tokens(p, sp)
    if rng.random() < 0.3:
        toks = dslprint.insert_comments(toks, rng, p=0.05)
    return dslprint.layout(toks, rng.choice(['pretty', 'pretty', 'oneline', 'tight', 'tabs']), rng, eol=rng.choice(['\n', '\n', '\r\n']))[0]


def make_items(v, protos, langs, seed, shapes, need_root=True):
    """compile each protocol with fin-protoc (in-process hook) and attach workload. returns (items, rejected)"""
    items = []
    rejected = []
    for p in protos:
        text = spelled(p)
        try:
            r = v.compile(text, langs)
        except tools.VapiDied as e:
            rejected.append((p, text, {'died': str(e), 'tail': e.stderr_tail}))
            continue
        it = lanes.Item(p, text)
        it.compile_result = r
        if r.get('syn_err') or r.get('diags') or not r.get('parsed'):
            rejected.append((p, text, r))
            continue
        it.files = r['files']
        it.gen_panics = r.get('panics', {})
        it.gen_errors = r.get('errors', {})
        it.names = v.names(it.all_identifiers())
        if p.root is not None:
            it.msgs = gen.messages(p, random.Random('%s/%s' % (seed, p.tag)), shapes)
            it.compute_ref()
        items.append(it)
    return items, rejected


def decode_cases(item, suffixes=SUFFIXES, second_message=True):
    cases = []
    meta = {}
    for i in range(len(item.msgs)):
        refb = item.ref[i][0]
        for sname, suf in suffixes:
            cid = '%d%s' % (i, sname)
            cases.append((cid, refb + suf))
            meta[cid] = (i, suf)
        if second_message and i == 0 and len(item.msgs) > 1:
            suf = item.ref[1][0]
            cid = '%dm' % i
            cases.append((cid, refb + suf))
            meta[cid] = (i, suf)
    return cases, meta


def run_lane(lang, items, work, enc=True, dec=True, jobs=16):
    """returns (batch, {tag: LaneOut}, {tag: dec meta})"""
    B = lane_class(lang)(work)
    have = [it for it in items if lang in it.files and it.proto.root is not None]
    B.prepare(have)
    outs = {}
    metas = {}

    def one(it):
        cases, meta = decode_cases(it) if dec else ([], {})
        enc_ids = list(range(len(it.msgs))) if enc else []
        return it.tag, B.run(it, enc_ids, cases), meta
    with ThreadPoolExecutor(max_workers=jobs) as ex:
        for tag, out, meta in ex.map(one, have):
            outs[tag] = out
            metas[tag] = meta
    return B, outs, metas

"""Abstract protocol specs owned by the harness (never derived from fin-protoc's model).

A Proto is printed to DSL text by dslprint.py and, independently, interpreted by
refmodel.py.  Feature atoms computed here drive clean-lane / known-finding
matching (findings.py).
"""
import copy
import random

NUM_TYPES = ['u8', 'u16', 'u32', 'u64', 'i8', 'i16', 'i32', 'i64', 'f32', 'f64']
INT_TYPES = ['u8', 'u16', 'u32', 'u64', 'i8', 'i16', 'i32', 'i64']
UNS_TYPES = ['u8', 'u16', 'u32', 'u64']
WIDTH = {'u8': 1, 'u16': 2, 'u32': 4, 'u64': 8, 'i8': 1, 'i16': 2, 'i32': 4, 'i64': 8, 'f32': 4, 'f64': 8, 'char': 1}
ALIAS = {'u8': 'uint8', 'u16': 'uint16', 'u32': 'uint32', 'u64': 'uint64', 'i8': 'int8', 'i16': 'int16',
         'i32': 'int32', 'i64': 'int64', 'f32': 'float32', 'f64': 'float64'}
PADCHARS = {'0': "'0'", 'sp': "' '", 'nul': "'\\x00'"}   # DSL spelling
PADBYTE = {'0': b'0', 'sp': b' ', 'nul': b'\x00'}


class Field:
    """kind: num char fix dyn ref inline match len cksum meta
    num:   ntype, alias(bool)
    char:  -
    fix:   n, zchar(bool), pad: None | (side 'left'|'right', ch '0'|'sp'|'nul'|None)  (None ch = '@xPad()')
    dyn:   spelling 'string'|'char[]'
    ref:   packet, named(bool)   (named False => field name == packet name)
    inline: fields   (object type name == field name)
    match: key (field name), pairs [( [keys...], packet )]   keys are ints or strs
    len:   ntype (unsigned), target, prefixed(bool), typed(bool: False => MetaData-typed by name)
    cksum: ntype, algo, prefixed(bool), typed(bool)
    meta:  entry (MetaData entry name), named(bool)
    """

    def __init__(self, kind, name, repeat=False, doc=None, **kw):
        self.kind = kind
        self.name = name
        self.repeat = repeat
        self.doc = doc
        self.alias = False
        self.__dict__.update(kw)

    def clone(self):
        return copy.deepcopy(self)

    def __repr__(self):
        d = {k: v for k, v in self.__dict__.items() if k not in ('kind', 'name')}
        return 'Field(%s %s %r)' % (self.kind, self.name, d)


class MetaEntry:
    """typed entry: base is a Field-like type holder (kind num/char/fix/dyn); ref entry: ref = other entry name."""

    def __init__(self, name, base=None, ref=None, doc='d'):
        self.name = name
        self.base = base
        self.ref = ref
        self.doc = doc


class Packet:
    def __init__(self, name, fields, root=False):
        self.name = name
        self.fields = fields
        self.root = root


class Proto:
    def __init__(self, packets, options=None, metadata=None, tag=''):
        self.packets = packets
        self.options = options or {}      # name -> value spelling (e.g. 'true', 'u8', "'0'", '"pkg"')
        self.metadata = metadata or []    # list of (blockname, [MetaEntry])
        self.tag = tag

    def clone(self):
        return copy.deepcopy(self)

    # ---- lookups
    def packet(self, name):
        for p in self.packets:
            if p.name == name:
                return p
        raise KeyError(name)

    @property
    def root(self):
        for p in self.packets:
            if p.root:
                return p
        return None

    def meta_entry(self, name):
        for _, ents in self.metadata:
            for e in ents:
                if e.name == name:
                    return e
        return None

    def resolve_meta(self, name):
        e = self.meta_entry(name)
        seen = 0
        while e is not None and e.ref is not None and seen < 10:
            e = self.meta_entry(e.ref)
            seen += 1
        return e.base if e else None

    # ---- effective configuration
    def cfg(self):
        o = self.options
        le = o.get('LittleEndian', 'false') == 'true'
        sp = o.get('StringPrefixLenType', 'u16')
        ap = o.get('ArrayPrefixLenType', 'u16')
        padchar = {"'0'": '0', "' '": 'sp', "'\\x00'": 'nul'}.get(o.get('FixedStringPadChar', "' '"), 'sp')
        padleft = o.get('FixedStringPadFromLeft', 'false') == 'true'
        return {'le': le, 'sp': sp, 'ap': ap, 'padchar': padchar, 'padleft': padleft}

    def eff(self, f):
        """effective base field (resolving MetaData typing) -> Field with kind in num char fix dyn (or f itself)."""
        if f.kind == 'meta':
            b = self.resolve_meta(f.entry)
            g = b.clone()
            g.name = f.name
            g.repeat = f.repeat
            if getattr(f, 'pad', None) is not None:
                g.pad = f.pad
            return g
        if f.kind in ('len', 'cksum') and not f.typed:
            b = self.resolve_meta(f.name)
            g = f.clone()
            g.ntype = b.ntype
            return g
        return f

    def eff_pad(self, f):
        """(side, byte) for an effective fix field."""
        c = self.cfg()
        if f.pad is not None:       # a padding attribute written on the field wins (also over zchar's implied NUL padding)
            side, ch = f.pad
            return (side, PADBYTE[ch] if ch else b' ')
        if f.zchar:
            return ('right', b'\x00')
        return ('left' if c['padleft'] else 'right', PADBYTE[c['padchar']])


def walk_fields(proto, fields, ctx, out):
    for f in fields:
        f._container = fields      # the declaration list the field lives in (a match key is looked up there)
        out.append((f, ctx))
        if f.kind == 'inline':
            walk_fields(proto, f.fields, ctx + ('inline',), out)


def features(proto):
    """feature atoms of a protocol (strings)."""
    A = set()
    c = proto.cfg()
    for k in ('LittleEndian', 'StringPrefixLenType', 'ArrayPrefixLenType', 'FixedStringPadChar',
              'FixedStringPadFromLeft', 'JavaPackage', 'GoPackage', 'GoModule'):
        A.add('opt:%s=%s' % (k, proto.options.get(k, 'omitted')))
    A.add('le' if c['le'] else 'be')
    A.add('sp:' + c['sp'])
    A.add('ap:' + c['ap'])
    A.add('npackets:%d' % min(len(proto.packets), 9))
    if proto.root is None:
        A.add('no-root')
    if proto.metadata:
        A.add('has-metadata')
    anyrep = False
    anystr = False
    for p in proto.packets:
        where = 'root' if p.root else 'sub'
        fl = []
        walk_fields(proto, p.fields, (where,), fl)
        if not p.fields:
            A.add('empty-packet')
        nm = sum(1 for f in p.fields if f.kind == 'match')
        if nm >= 2:
            A.add('multi-match')
            keys = [f.key for f in p.fields if f.kind == 'match']
            if len(set(keys)) < len(keys):
                A.add('multi-match-samekey')
        if p.root and not any(f.kind == 'len' for f in p.fields):
            A.add('root-no-len')
        if not p.root:
            A.add('has-sub')
        for f, ctx in fl:
            e = proto.eff(f)
            k = e.kind
            if k == 'fix' and e.zchar:
                k = 'zchar'
            A.add('k:' + k)
            A.add('%s:%s' % (ctx[0], k))
            if 'inline' in ctx:
                A.add('in-inline:' + k)
                A.add('nest:%d' % (len(ctx) - 1))
            if f.repeat:
                anyrep = True
                A.add('rep:' + k)
                if 'inline' in ctx:
                    A.add('in-inline-rep:' + k)
            if f.kind == 'meta':
                A.add('k:meta')
                A.add('meta:' + k)
                if f.repeat:
                    A.add('rep:meta')
                if proto.meta_entry(f.entry).ref:
                    A.add('meta-ref')
                if f.named:
                    A.add('meta-named')
                if getattr(f, 'pad', None) is not None:
                    A.add('meta-pad-attr')
            if k == 'num':
                A.add('t:' + e.ntype)
                if f.repeat:
                    A.add('rep-t:' + e.ntype)
                if e.alias:
                    A.add('alias')
            if k in ('fix', 'zchar'):
                anystr = True
                side, b = proto.eff_pad(e)
                A.add('padeff:%s:%s' % (side, {b' ': 'sp', b'0': '0', b'\x00': 'nul'}[b]))
                if e.pad is not None:
                    A.add('pad-attr:%s:%s' % (e.pad[0], e.pad[1] or 'empty'))
                    A.add('pad-attr')
                A.add('fixn:%s' % ('0' if e.n == 0 else '1' if e.n == 1 else 'n'))
            if k == 'dyn':
                anystr = True
                A.add('dyn:' + e.spelling)
            if k == 'ref':
                if f.named:
                    A.add('ref-named')
                if f.packet == p.name:
                    A.add('self-ref')
            if k == 'match':
                keyf = next(x for x in f._container if x.name == f.key)
                ke = proto.eff(keyf)
                kt = ke.ntype if ke.kind == 'num' else ke.kind
                A.add('key:' + kt)
                A.add('%s-match' % ctx[0])
                if any(len(ks) > 1 for ks, _ in f.pairs):
                    A.add('keylist')
                if any(len(ks) > 5 for ks, _ in f.pairs):
                    A.add('keylist>5')
                pk = [pp for _, pp in f.pairs]
                if len(set(pk)) < len(pk):
                    A.add('manykeys-one')
                A.add('npairs:%d' % min(sum(len(ks) for ks, _ in f.pairs), 9))
                if keyf.kind == 'meta':
                    A.add('key-meta')
            if k == 'len':
                A.add('len:' + e.ntype)
                tgt = next(x for x in f._container if x.name == f.target)
                A.add('len-target:' + tgt.kind)
                if tgt.repeat or tgt.kind not in ('ref', 'inline', 'match'):
                    A.add('len-target-not-an-object')      # a string, a number, a list: see W-lengthof-non-object-target
                A.add('len-spell:' + ('prefixed' if f.prefixed else 'inline'))
                if not f.typed:
                    A.add('len-meta')
                li = f._container.index(f)
                ti = f._container.index(tgt)
                A.add('len-gap:%d' % min(ti - li - 1, 3))
            if k == 'cksum':
                A.add('ck:' + e.ntype)
                A.add('ck-algo:' + f.algo)
                A.add('ck-spell:' + ('prefixed' if f.prefixed else 'inline'))
                if not f.typed:
                    A.add('ck-meta')
                A.add('ck-in:' + ctx[0])
                if f._container and f._container[-1] is not f:
                    A.add('ck-mid')
            if f.doc:
                A.add('doc')
            if f.name != f.name[:1].upper() + f.name[1:] or '_' in f.name or f.name.isupper() and len(f.name) > 1 or any(ch.isdigit() for ch in f.name):
                A.add('ident-odd')
    for p in proto.packets:
        n = p.name
        if n != n[:1].upper() + n[1:] or '_' in n or (n.isupper() and len(n) > 1) or any(ch.isdigit() for ch in n):
            A.add('pkt-ident-odd')
    # depth of packet-reference chains (object fields and match pairs) below each packet
    memo = {}

    def refdepth(name, seen=()):
        if name in memo:
            return memo[name]
        if name in seen:
            return 0
        try:
            pk = proto.packet(name)
        except KeyError:
            return 0
        fl = []
        walk_fields(proto, pk.fields, (), fl)
        d = 0
        for f, _ in fl:
            if f.kind == 'ref':
                d = max(d, 1 + refdepth(f.packet, seen + (name,)))
            elif f.kind == 'match':
                for _, pn in f.pairs:
                    d = max(d, 1 + refdepth(pn, seen + (name,)))
        memo[name] = d
        return d
    objnames = {}
    for pk in proto.packets:
        fl = []
        walk_fields(proto, pk.fields, (), fl)
        for f, _ in fl:
            if f.kind in ('ref', 'inline', 'match'):
                objnames[f.name] = objnames.get(f.name, 0) + 1
    if any(v > 1 for v in objnames.values()):
        A.add('objname-reused')
    # inline objects of one NAME declared with different member lists
    shapes = {}
    for pk in proto.packets:
        fl = []
        walk_fields(proto, pk.fields, (), fl)
        for f, _ in fl:
            if f.kind == 'inline':
                shapes.setdefault(f.name, set()).add(tuple((g.kind, g.name, getattr(g, 'ntype', None), g.repeat) for g in f.fields))
    if any(len(v) > 1 for v in shapes.values()):
        A.add('inline-name-clash')
    # does the sample tree of some packet (object fields, inline objects, first match alternative) use one member name twice?
    for pk in proto.packets:
        names = []

        def collect(fields, depth):
            if depth > 6:
                return
            for f in fields:
                if f.kind == 'ref':
                    names.append(f.name)
                    try:
                        collect(proto.packet(f.packet).fields, depth + 1)
                    except KeyError:
                        pass
                elif f.kind == 'inline':
                    names.append(f.name)
                    collect(f.fields, depth + 1)
                elif f.kind == 'match':
                    names.append(f.name)
                    names.append('pkt:' + f.pairs[0][1])      # Java names the payload sample after the packet
                    try:
                        collect(proto.packet(f.pairs[0][1]).fields, depth + 1)
                    except KeyError:
                        pass
        collect(pk.fields, 0)
        if len(set(names)) < len(names):
            A.add('sample-name-collision')
            break
    md = max([refdepth(pk.name) for pk in proto.packets] + [0])
    A.add('refdepth:%d' % min(md, 3))
    if md >= 2:
        A.add('refdepth>=2')
    if anyrep:
        A.add('any-repeat')
    if anystr:
        A.add('any-string')
    return A


class Rng(random.Random):
    pass

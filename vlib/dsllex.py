"""Independent lexer for PacketDsl written from grammar/PacketDsl.g4's token rules (longest match), plus
token-sequence helpers used by the formatter oracles.  It never calls fin-protoc."""
import re

_PATTERNS = [
    ('COMMENT', r'//[^\r\n]*'),
    ('WS', r'[ \t\r\n]+'),
    ('DOC', r'`[^`]*`'),
    ('STRING', r'"(?:[^"\\\r\n]|\\.)*"'),
    ('PADCHAR', r"'(?:0| |\\x00)'"),
    ('LIT', r'@calculatedFrom\(|@lengthOf\(|@tag\(|@leftPad|@rightPad|zchar\[|char\[\]|char\['),
    ('DIGITS', r'[0-9]+'),
    ('IDENT', r'[a-zA-Z_][a-zA-Z_0-9]*'),
    ('PUNCT', r'[{}=()\[\]:,;]'),
]
_RX = [(k, re.compile(p)) for k, p in _PATTERNS]


class LexError(Exception):
    pass


def lex(text):
    """returns list of (kind, text, line) including comments, excluding whitespace."""
    out = []
    pos = 0
    line = 1
    n = len(text)
    while pos < n:
        best = None
        for k, rx in _RX:
            m = rx.match(text, pos)
            if m and m.end() > pos and (best is None or m.end() > best[1].end()):
                best = (k, m)
        if best is None:
            raise LexError('no token at %d: %r' % (pos, text[pos:pos + 20]))
        k, m = best
        if k != 'WS':
            out.append((k, m.group(0), line))
        line += m.group(0).count('\n')
        pos = m.end()
    return out


def split(tokens):
    """(content token texts, comment texts)"""
    return [t for k, t, _ in tokens if k != 'COMMENT'], [t for k, t, _ in tokens if k == 'COMMENT']


def essential(texts):
    """drop grammar-optional separators: every ';' and the ',' that separates match pairs."""
    out = []
    stack = []      # 'match' bodies and other braces
    pending_match = False
    brack = 0
    for t in texts:
        if t == 'match':
            pending_match = True
        if t == '{':
            stack.append('match' if pending_match else 'other')
            pending_match = False
        elif t == '}':
            if stack:
                stack.pop()
        elif t == '[':
            brack += 1
        elif t == ']':
            brack = max(0, brack - 1)
        if t == ';':
            continue
        if t == ',' and stack and stack[-1] == 'match' and brack == 0:
            continue
        out.append(t)
    return out


PUNCT = set('{}=()[]:,;')


def words_and_comments(tokens):
    """merged sequence of non-punctuation tokens and comments (relative order oracle)."""
    return [t for k, t, _ in tokens if k == 'COMMENT' or t not in PUNCT]

"""C12 (diagnostics), C11 (no crash), C16 (entry points)."""
import os
import random
import re
import shutil
import subprocess
from concurrent.futures import ThreadPoolExecutor

from . import dslprint, faults, gen, tools
from .checks_meta import FLAGS, base_pool, read_tree, tree_diff, probes
from .spec import features

DIAG_RE = re.compile(r'^Syntax error at line (\d+), column (-?\d+): (.*)$', re.M)
LISTENER_RE = re.compile(r'\{(\d+) (\d+) ([^{}]*?) (?:\[@|<nil>|0x)')


def run_cli(ctx, args, cwd, timeout=120, stdin=None):
    logp = os.path.join(cwd, 'cli.out')
    with open(logp, 'wb') as lf:
        p = subprocess.run(['timeout', '-s', 'QUIT', '-k', '5', str(timeout), ctx.cli] + args, stdout=lf, stderr=subprocess.STDOUT, cwd=cwd, stdin=subprocess.DEVNULL)
    with open(logp, 'rb') as lf:
        out = lf.read()
    return p.returncode, out


def crashed(rc, out):
    t = out.decode('utf-8', 'replace')
    if rc in (124, 137) or rc == 131:
        return 'watchdog'
    if 'panic:' in t or 'fatal error:' in t or re.search(r'goroutine \d+ \[running\]', t):
        m = re.search(r'(panic: [^\n]*|fatal error: [^\n]*)', t)
        site = re.search(r'fin-protoc/internal/([a-z]+/[a-z_]+\.go):(\d+)', t)
        return '%s @ %s' % (m.group(1) if m else 'crash', site.group(0) if site else '?')
    if rc < 0 or rc > 1 and rc not in (2,):
        return 'exit status %d' % rc
    if rc == 2 and ('panic' in t or 'goroutine' in t):
        return 'exit status 2'
    return None


def compile_all_targets(ctx, text, wd):
    os.makedirs(wd, exist_ok=True)
    src = os.path.join(wd, 'in.dsl')
    with open(src, 'wb') as f:
        f.write(text.encode('utf-8', 'surrogateescape') if isinstance(text, str) else text)
    args = ['-f', src]
    outs = {}
    for l in tools.LANGS:
        d = os.path.join(wd, 'o_' + l)
        outs[l] = d
        args += [FLAGS[l], d]
    rc, out = run_cli(ctx, args, wd)
    written = []
    for l, d in outs.items():
        if os.path.isdir(d):
            for dp, dn, fn in os.walk(d):
                for f in fn:
                    written.append(os.path.relpath(os.path.join(dp, f), wd))
            if not written:
                written.append(os.path.relpath(d, wd) + '/')
    return rc, out, written


def triage12(ctx, cls, base, fl, symptom, what, replay):
    from . import check
    feats = set(features(base)) | {'fault:' + cls}
    app = [fd for fd in check.applicable(ctx.findings_db, 'C12', 'compile', feats) if check.symptom_matches(fd, symptom, what)]
    if app:
        ctx.finding_excluded[app[0]['id']] += 1
        ctx.known_finding(app[0]['id'], app[0]['what'])
        return
    ctx.violation(('C12', cls, symptom, base.tag), '%s [%s on %s] %s' % (symptom, cls, base.tag, what), replay)


def c12(ctx):
    quick = ctx.tier == 'quick'
    ctx.level = 'fault_enumeration'
    ctx.cov['rule'] = ('well-formed base protocols (feature matrix + random + rich) -> every single-fault variant of 17 fault classes at every site (fault_enumeration, exhaustive per base); '
                       'each compiled by the real CLI with all six output flags; oracle: non-zero exit, a "Syntax error at line N" whose N lies in the line span of the offending declaration '
                       '(known because the harness prints the text), the offending identifier named, no file written; un-faulted bases must be accepted with no diagnostic. '
                       'distinct = (fault class, base) pairs')
    ctx.cov['exhaustive'] = False
    ctx.cov['exhaustive_in'] = 'fault sites per base protocol (all sites of all classes); base protocols are sampled'
    nmat, nrand, nrich = (40, 25, 6) if quick else (400, 300, 40)
    rng0 = random.Random('%s/c12' % ctx.seed)
    mat = gen.matrix_protos()
    rng0.shuffle(mat)
    # always keep the bases that carry length/match/metadata/inline features
    keep = [p for p in mat if p.tag.startswith(('Ml', 'Mm', 'Md', 'Mo', 'Mc'))][:(30 if quick else 400)]
    pool = keep + mat[:nmat]
    seen = set()
    pool = [p for p in pool if not (p.tag in seen or seen.add(p.tag))]
    for i in range(nrand):
        pool.append(gen.random_proto(random.Random('%s/c12r%d' % (ctx.seed, i)), gen.alpha_tag('Dg', i)))
    for i in range(nrich):
        pool.append(gen.rich_proto(random.Random('%s/c12h%d' % (ctx.seed, i)), gen.alpha_tag('Dh', i), npk=4))
    jobs = []
    per_class = {}
    for base in pool:
        rng = random.Random('%s/%s/l' % (ctx.seed, base.tag))
        jobs.append(('base', base, None, dslprint.tokens(base), rng.choice(['pretty', 'tabs', 'random', 'tokenperline']), rng.randint(0, 3)))
        for fl in faults.inject_all(base):
            toks = dslprint.tokens(fl.proto)
            jobs.append(('fault', base, fl, toks, rng.choice(['pretty', 'pretty', 'tabs', 'random', 'tokenperline', 'oneline']), rng.randint(0, 4)))

    ctx.cli
    jobs = [j + (n,) for n, j in enumerate(jobs)]

    def one(job):
        kind, base, fl, toks, style, shift, jn = job
        rng = random.Random('%s/%s/%s/%s' % (ctx.seed, base.tag, fl.site if fl else '', style))
        pre = []
        for k in range(shift):
            pre.append(dslprint.Comment('// header %d' % k, own_line=True))
        toks2 = pre + toks
        text, lines = dslprint.layout(toks2, style, rng, eol='\n')
        if fl is not None and rng.random() < 0.3 and text.endswith('\n'):
            text = text.rstrip('\n')     # last line without newline
        wd = os.path.join(ctx.scr.dir, 'c12', 'j%d' % jn)
        rc, out, written = compile_all_targets(ctx, text, wd)
        shutil.rmtree(wd, ignore_errors=True)
        span = dslprint.marked_lines(toks2, lines) if fl else set()
        return job, text, rc, out.decode('utf-8', 'replace'), written, span
    with ThreadPoolExecutor(max_workers=16) as ex:
        results = list(ex.map(one, jobs))
    nb = 0
    for (kind, base, fl, toks, style, shift, jn), text, rc, out, written, span in results:
        cr = crashed(rc, out.encode())
        diags = [(int(m.group(1)), m.group(3)) for m in DIAG_RE.finditer(out)]
        listener = [(int(m.group(1)), m.group(3)) for m in LISTENER_RE.finditer(out)] if 'syntax errors found' in out else []
        if kind == 'base':
            nb += 1
            ctx.evaluated(1, key=('accept', base.tag))
            if cr:
                triage12(ctx, 'none', base, None, 'wellformed-crash', 'compiler crashes on a well-formed protocol: %s' % cr, {'dsl': text, 'output': out[-1500:]})
            elif rc != 0 or diags or listener:
                triage12(ctx, 'none', base, None, 'wellformed-rejected', 'well-formed protocol is rejected: rc=%d %s %s' % (rc, diags[:2], out[-200:] if not diags else ''), {'dsl': text, 'output': out[-1500:]})
            continue
        cls = fl.cls
        per_class[cls] = per_class.get(cls, 0) + 1
        ctx.evaluated(1, key=(cls, base.tag))
        rep = {'dsl': text, 'fault_class': cls, 'site': fl.site, 'expected_lines': sorted(span), 'identifier': fl.ident, 'exit_status': rc, 'output': out[-1500:], 'layout': style}
        if cr:
            triage12(ctx, cls, base, fl, 'crash', '%s: %s' % (fl.site, cr), rep)
            continue
        if rc == 0:
            triage12(ctx, cls, base, fl, 'accepted', '%s: exit status 0, diagnostics=%s' % (fl.site, diags[:2]), rep)
            if written:
                pass
            continue
        if written:
            triage12(ctx, cls, base, fl, 'files-written', '%s: rejected but wrote %s' % (fl.site, written[:3]), rep)
        at = [d for d in diags + listener if d[0] in span]
        if not at:
            triage12(ctx, cls, base, fl, 'no-diagnostic-at-line', '%s: expected a diagnostic at line %s, got %s' % (fl.site, sorted(span), (diags + listener)[:3]), rep)
            continue
        if fl.ident and not any(fl.ident in d[1] for d in at):
            triage12(ctx, cls, base, fl, 'diagnostic-lacks-identifier', '%s: diagnostic at the right line does not name %r: %s' % (fl.site, fl.ident, at[:2]), rep)
        if len(ctx.cov['samples']) < 5 and cls not in [s.get('fault_class') for s in ctx.cov['samples']]:
            ctx.sample({'fault_class': cls, 'site': fl.site, 'expected_lines': sorted(span), 'diagnostics': at[:2], 'exit_status': rc})
    ctx.cov['faulted_runs_per_class'] = per_class
    ctx.cov['wellformed_bases'] = nb
    strace_sample(ctx, results)
    probes(ctx, 'C12')


def strace_sample(ctx, results, n=12):
    """observe file-system effects of rejected compilations with strace: no mkdir / write-open under the output directories."""
    picked = [r for r in results if r[0][0] == 'fault' and r[2] != 0][:n]
    seen = 0
    for (kind, base, fl, toks, style, shift, jn), text, rc, out, written, span in picked:
        wd = os.path.join(ctx.scr.dir, 'c12s', base.tag + str(seen))
        os.makedirs(wd, exist_ok=True)
        src = os.path.join(wd, 'in.dsl')
        with open(src, 'w') as f:
            f.write(text)
        args = ['-f', src]
        for l in tools.LANGS:
            args += [FLAGS[l], os.path.join(wd, 'o_' + l)]
        log = os.path.join(wd, 'strace.log')
        subprocess.run(['strace', '-f', '-qq', '-e', 'trace=openat,open,creat,mkdir,mkdirat,rename,renameat,renameat2,unlink,unlinkat', '-o', log, ctx.cli] + args,
                       stdout=subprocess.DEVNULL, stderr=subprocess.DEVNULL, cwd=wd)
        try:
            with open(log) as f:
                tr = f.read()
        except OSError:
            ctx.notes.append('strace unavailable')
            return
        seen += 1
        bad = [l for l in tr.split('\n') if '/o_' in l and ('mkdir' in l or 'O_WRONLY' in l or 'O_RDWR' in l or 'O_CREAT' in l or 'creat(' in l)]
        ctx.counters['strace_observed_rejections'] += 1
        if bad:
            triage12(ctx, fl.cls, base, fl, 'files-written', 'strace: rejected compile touched the output directories: %s' % bad[:2], {'dsl': text, 'strace': bad[:10]})
        shutil.rmtree(wd, ignore_errors=True)


CHECKS = {'C12': c12}


# ------------------------------------------------------------------------------------------------ C export host

CHOST_SRC = os.path.join(tools.VERIF, 'runtimes', 'chost', 'host.c')


def build_chost(ctx):
    so = ctx.so
    d = os.path.dirname(so)
    out = os.path.join(d, 'chost')
    if os.path.exists(out):
        return out
    rc, log = tools.run(['clang', '-g', '-O1', '-fsanitize=address,undefined', '-fno-sanitize-recover=all', '-fno-omit-frame-pointer', CHOST_SRC, '-o', out,
                         '-L', d, '-lpacketdsl', '-Wl,-rpath,' + d])
    if rc != 0:
        raise tools.BuildError('C host build failed:\n' + log)
    return out


def run_chost(ctx, inputs, name, batch=200):
    """inputs: [(id, bytes)] -> {id: bytes|('CRASH', text)}; one child per batch, each input written to disk first."""
    host = build_chost(ctx)
    res = {}
    d = os.path.join(ctx.scr.dir, 'chost_' + name)
    os.makedirs(d, exist_ok=True)
    env = dict(os.environ)
    env['ASAN_OPTIONS'] = 'halt_on_error=1:abort_on_error=0:detect_leaks=1:exitcode=97'
    env['UBSAN_OPTIONS'] = 'halt_on_error=1:print_stacktrace=1'
    queue = list(inputs)
    bn = 0
    while queue:
        chunk, queue = queue[:batch], queue[batch:]
        bn += 1
        lst = os.path.join(d, 'list%d.txt' % bn)
        with open(lst, 'w') as lf:
            for cid, data in chunk:
                p = os.path.join(d, 'in_%s.bin' % cid)
                with open(p, 'wb') as f:
                    f.write(data)
                lf.write('%s %s\n' % (cid, p))
        outp = os.path.join(d, 'out%d.txt' % bn)
        with open(outp, 'wb') as of:
            p = subprocess.run(['timeout', '-s', 'QUIT', '-k', '5', '300', host, lst], stdout=of, stderr=subprocess.STDOUT, env=env)
        with open(outp, 'rb') as of:
            text = of.read().decode('utf-8', 'replace')
        begun = None
        done = False
        for line in text.split('\n'):
            if line.startswith('BEGIN '):
                begun = line[6:]
            elif line.startswith('RESULT '):
                parts = line.split(' ')
                res[parts[1]] = bytes.fromhex(parts[3]) if len(parts) > 3 and parts[2] != '-1' else b''
                begun = None
            elif line == 'DONE':
                done = True
        if not done:
            # the child died while processing `begun`; everything after it in the chunk is re-queued
            ids = [c for c, _ in chunk]
            if begun in ids:
                res[begun] = ('CRASH', 'exit %s: %s' % (p.returncode, text[-1800:]))
                rest = chunk[ids.index(begun) + 1:]
                queue = rest + queue
            else:
                for c, _ in chunk:
                    if c not in res:
                        res[c] = ('CRASH', 'host died before BEGIN (exit %s): %s' % (p.returncode, text[-800:]))
        elif 'ERROR: AddressSanitizer' in text or 'ERROR: LeakSanitizer' in text or 'runtime error:' in text:
            for c, _ in chunk:
                if not isinstance(res.get(c), tuple):
                    pass
            res['__sanitizer__%d' % bn] = ('CRASH', 'sanitizer report in batch %d: %s' % (bn, text[-1800:]))
        for cid, _ in chunk:
            try:
                os.remove(os.path.join(d, 'in_%s.bin' % cid))
            except OSError:
                pass
    return res


# ------------------------------------------------------------------------------------------------ C11

def triage11(ctx, label, entry, symptom, site, what, replay):
    from . import check
    feats = {'label:' + label, 'label0:' + label.split('/')[0], 'entry:' + entry, 'site:' + (site or '?')}
    app = [fd for fd in check.applicable(ctx.findings_db, 'C11', 'any', feats) if check.symptom_matches(fd, symptom, what)]
    if app:
        ctx.finding_excluded[app[0]['id']] += 1
        ctx.known_finding(app[0]['id'], app[0]['what'])
        return
    ctx.violation(('C11', symptom, entry, site or label), '%s via %s [%s] %s' % (symptom, entry, label, what), replay)


def c11(ctx):
    from . import hostile
    quick = ctx.tier == 'quick'
    ctx.cov['rule'] = ('(a) every fieldDefinition alternative x optional elements x each attribute, option name x value kind, MetaData/packet shapes; (b) semantically ill-formed programs '
                       '(single-fault variants of every C12 class, recursion, no root, huge DIGITS, key/type mismatches); (c) byte level (every prefix of valid texts, byte flips/deletes/inserts, '
                       'random bytes, token soup, invalid UTF-8, NUL, 64 KiB line, nesting 10/1000/20000). Each through format and parse+all six generators in-process (recover() + stack), '
                       'a sample through the real CLI (format -d, format -f, compile with six outputs) and all through FormatPacketDslExport in an ASan/UBSan/LSan C host. '
                       'oracle: no recovered panic, no child death/fatal error/sanitizer report; watchdog expiry = inconclusive. distinct = (label, entry point) pairs x distinct texts')
    texts = []
    for label, t in hostile.shape_texts():
        texts.append((label, t.encode('utf-8', 'surrogateescape')))
    for label, t in hostile.semantic_texts(ctx.seed, quick):
        texts.append((label, t.encode('utf-8', 'surrogateescape')))
    valid = [dslprint.render(p) for p in gen.matrix_protos()[::17]]
    texts += hostile.byte_texts(ctx.seed, quick, valid)
    seen = set()
    uniq = []
    for label, b in texts:
        if b in seen:
            continue
        seen.add(b)
        uniq.append((label, b))
    texts = uniq
    ctx.cov['texts'] = len(texts)
    labels = {}
    sites = {}
    # ---- in-process
    v = ctx.vapi
    for i, (label, b) in enumerate(texts):
        labels[label.split('/')[0]] = labels.get(label.split('/')[0], 0) + 1
        rep = {'label': label, 'input_b64': tools.b64(b), 'input_preview': b[:300].decode('utf-8', 'replace')}
        for entry in ('format', 'compile'):
            ctx.evaluated(1, key=(label, entry, hash(b) % 100000))
            try:
                if entry == 'format':
                    r = v.call({'op': 'format', 'text_b64': tools.b64(b)}, timeout=180)
                    pans = [('format', r['panic'])] if r.get('panic') else []
                else:
                    r = v.call({'op': 'compile', 'text_b64': tools.b64(b), 'langs': tools.LANGS, 'shared': True}, timeout=180)
                    pans = list((r.get('panics') or {}).items())
            except tools.VapiDied as e:
                if str(e) == 'timeout':
                    ctx.inconc('watchdog: %s of a %s text did not finish in 180 s (input saved in replay dir)' % (entry, label))
                    ctx.violation(('C11', 'watchdog', entry, label), 'no termination within the watchdog (inconclusive, input kept)', dict(rep, stderr=e.stderr_tail)) if False else None
                    continue
                m = re.search(r'(fatal error: [^\n]*|panic: [^\n]*)', e.stderr_tail or '')
                st = re.search(r'fin-protoc/internal/([a-z]+/[a-z_]+\.go):(\d+)', e.stderr_tail or '')
                site = st.group(1) if st else '?'
                triage11(ctx, label, 'in-process ' + entry, 'fatal', site, 'process died (%s): %s' % (e, m.group(1) if m else (e.stderr_tail or '')[-200:]), dict(rep, stderr=(e.stderr_tail or '')[-3000:]))
                continue
            for stage, pn in pans:
                sites[pn['site']] = sites.get(pn['site'], 0) + 1
                triage11(ctx, label, 'in-process %s/%s' % (entry, stage), 'panic', pn['site'], 'recovered panic at %s: %s' % (pn['site'], pn['value']), dict(rep, panic=pn))
    ctx.cov['labels'] = labels
    ctx.cov['panic_sites_seen'] = sites
    # ---- CLI children (sample)
    ctx.cli
    step = 3 if quick else 1
    sample = [(i, l, b) for i, (l, b) in enumerate(texts) if i % step == 0 or not l.startswith(('prefix', 'byte-', 'token-soup', 'random-bytes', 'shape-attr'))]

    def cli_one(job):
        i, label, b = job
        wd = os.path.join(ctx.scr.dir, 'c11', 'j%d' % i)
        os.makedirs(wd, exist_ok=True)
        out = []
        src = os.path.join(wd, 'in.dsl')
        with open(src, 'wb') as f:
            f.write(b)
        rc, o, written = compile_all_targets(ctx, b, wd)
        out.append(('compile', rc, o))
        with open(src, 'wb') as f:
            f.write(b)
        rc, o = run_cli(ctx, ['format', '-f', src], wd)
        out.append(('format -f', rc, o))
        if b and b'\x00' not in b and len(b) < 100000:
            try:
                arg = b.decode('utf-8')
                rc, o = run_cli(ctx, ['format', '-d', arg], wd)
                out.append(('format -d', rc, o))
            except UnicodeDecodeError:
                pass
        shutil.rmtree(wd, ignore_errors=True)
        return job, out
    with ThreadPoolExecutor(max_workers=16) as ex:
        for (i, label, b), outs in ex.map(cli_one, sample):
            for entry, rc, o in outs:
                ctx.evaluated(1, key=(label, 'cli ' + entry, hash(b) % 100000))
                cr = crashed(rc, o)
                if cr == 'watchdog':
                    ctx.inconc('watchdog: CLI %s of a %s text did not finish' % (entry, label))
                elif cr:
                    st = re.search(r'fin-protoc/internal/([a-z]+/[a-z_]+\.go):(\d+)', o.decode('utf-8', 'replace'))
                    fn = re.search(r'fin-protoc/internal/[a-z]+\.\(?\*?([A-Za-z]+)\)?\.([A-Za-z]+)\(', o.decode('utf-8', 'replace'))
                    site = (st.group(1) + ':' + (fn.group(1) + '.' + fn.group(2) if fn else '?')) if st else '?'
                    triage11(ctx, label, 'cli ' + entry, 'cli-crash', site, '%s' % cr, {'label': label, 'input_b64': tools.b64(b), 'input_preview': b[:300].decode('utf-8', 'replace'), 'output': o.decode('utf-8', 'replace')[-2500:]})
    ctx.cov['cli_texts'] = len(sample)
    # ---- exported C function under ASan/UBSan/LSan
    exp = [(str(i), b) for i, (l, b) in enumerate(texts)]
    res = run_chost(ctx, exp, 'c11')
    for i, (label, b) in enumerate(texts):
        r = res.get(str(i))
        ctx.evaluated(1, key=(label, 'export', hash(b) % 100000))
        if isinstance(r, tuple):
            st = re.search(r'fin-protoc/internal/([a-z]+/[a-z_]+\.go):(\d+)', r[1])
            triage11(ctx, label, 'export', 'host-crash', st.group(1) if st else '?', 'host process died in FormatPacketDslExport: %s' % r[1][-300:].replace('\n', ' | '),
                     {'label': label, 'input_b64': tools.b64(b), 'input_preview': b[:300].decode('utf-8', 'replace'), 'output': r[1]})
        elif r is None:
            ctx.counters['export-not-run'] += 1
    for k, r in res.items():
        if k.startswith('__sanitizer__'):
            triage11(ctx, 'batch', 'export', 'sanitizer-report', '?', r[1][-600:], {'output': r[1]})
    ctx.cov['export_calls'] = len(exp)
    ctx.sample({'label': texts[5][0], 'input': texts[5][1][:200].decode('utf-8', 'replace')})
    ctx.sample({'label': texts[-1][0], 'input': texts[-1][1][:200].decode('utf-8', 'replace')})
    ctx.assumptions += ['hang detection is a bounded watchdog (180 s in-process, 120 s per child) whose expiry is inconclusive, not a violation',
                        'the C API takes NUL-terminated strings: inputs with an embedded NUL reach the export truncated at the NUL']
    probes(ctx, 'C11')


CHECKS['C11'] = c11


# ------------------------------------------------------------------------------------------------ resource probes (C11)

from . import probes as _probes


@_probes.prober('cli-resource')
def probe_cli_resource(ctx, prop, fd, pr):
    """run `fin-protoc compile` on the probe text in a child with a memory limit and a short watchdog.
    same = watchdog expiry or out-of-memory death (the recorded blow-up); None = finished normally."""
    wd = os.path.join(ctx.scr.dir, 'probe_' + fd['id'])
    os.makedirs(wd, exist_ok=True)
    src = os.path.join(wd, 'in.dsl')
    text = pr['text']
    if pr.get('python_expr'):
        text = eval(pr['python_expr'], {})       # the text is generated (e.g. 2000 nested objects), the expression is part of the committed finding
    with open(src, 'w') as f:
        f.write(text)
    args = ' '.join(["'%s'" % ctx.cli, '-f', "'%s'" % src] + ['%s %s' % (FLAGS[l], os.path.join(wd, 'o_' + l)) for l in pr.get('langs', tools.LANGS)])
    cmd = 'ulimit -v %d; exec timeout -s KILL %d %s' % (int(pr.get('mem_kb', 3000000)), int(pr.get('timeout_s', 20)), args)
    p = subprocess.run(['bash', '-c', cmd], stdout=subprocess.PIPE, stderr=subprocess.STDOUT, cwd=wd)
    out = p.stdout.decode('utf-8', 'replace')
    shutil.rmtree(wd, ignore_errors=True)
    if p.returncode in (137, -9, 124):
        return ('same', 'killed by the %ss watchdog' % pr.get('timeout_s', 20))
    if 'out of memory' in out or 'cannot allocate memory' in out:
        return ('same', 'out of memory under ulimit -v %s KB' % pr.get('mem_kb', 3000000))
    cr = crashed(p.returncode, out.encode())
    if cr:
        return ('different', cr)
    return None

"""C12 (diagnostics), C11 (no crash), C16 (entry points)."""
import os
import random
import re
import shutil
import subprocess
from concurrent.futures import ThreadPoolExecutor

from . import dslprint, faults, gen, tools
from .checks_meta import FLAGS, base_pool, read_tree, tree_diff, probes
from .spec import features

DIAG_RE = re.compile(r'^Syntax error at line (\d+), column (-?\d+): (.*)$', re.M)
LISTENER_RE = re.compile(r'\{(\d+) (\d+) ([^{}]*?) (?:\[@|<nil>|0x)')


def run_cli(ctx, args, cwd, timeout=120, stdin=None):
    logp = os.path.join(cwd, 'cli.out')
    with open(logp, 'wb') as lf:
        p = subprocess.run(['timeout', '-s', 'QUIT', '-k', '5', str(timeout), ctx.cli] + args, stdout=lf, stderr=subprocess.STDOUT, cwd=cwd, stdin=subprocess.DEVNULL)
    with open(logp, 'rb') as lf:
        out = lf.read()
    return p.returncode, out


def crashed(rc, out):
    t = out.decode('utf-8', 'replace')
    if rc in (124, 137) or rc == 131:
        return 'watchdog'
    if 'panic:' in t or 'fatal error:' in t or re.search(r'goroutine \d+ \[running\]', t):
        m = re.search(r'(panic: [^\n]*|fatal error: [^\n]*)', t)
        site = re.search(r'fin-protoc/internal/([a-z]+/[a-z_]+\.go):(\d+)', t)
        return '%s @ %s' % (m.group(1) if m else 'crash', site.group(0) if site else '?')
    if rc < 0 or rc > 1 and rc not in (2,):
        return 'exit status %d' % rc
    if rc == 2 and ('panic' in t or 'goroutine' in t):
        return 'exit status 2'
    return None


def compile_all_targets(ctx, text, wd):
    os.makedirs(wd, exist_ok=True)
    src = os.path.join(wd, 'in.dsl')
    with open(src, 'wb') as f:
        f.write(text.encode('utf-8', 'surrogateescape') if isinstance(text, str) else text)
    args = ['-f', src]
    outs = {}
    for l in tools.LANGS:
        d = os.path.join(wd, 'o_' + l)
        outs[l] = d
        args += [FLAGS[l], d]
    rc, out = run_cli(ctx, args, wd)
    written = []
    for l, d in outs.items():
        if os.path.isdir(d):
            for dp, dn, fn in os.walk(d):
                for f in fn:
                    written.append(os.path.relpath(os.path.join(dp, f), wd))
            if not written:
                written.append(os.path.relpath(d, wd) + '/')
    return rc, out, written


def triage12(ctx, cls, base, fl, symptom, what, replay):
    from . import check
    feats = set(features(base)) | {'fault:' + cls}
    app = [fd for fd in check.applicable(ctx.findings_db, 'C12', 'compile', feats) if check.symptom_matches(fd, symptom, what)]
    if app:
        ctx.finding_excluded[app[0]['id']] += 1
        ctx.known_finding(app[0]['id'], app[0]['what'])
        return
    ctx.violation(('C12', cls, symptom, base.tag), '%s [%s on %s] %s' % (symptom, cls, base.tag, what), replay)


def c12(ctx):
    quick = ctx.tier == 'quick'
    ctx.level = 'fault_enumeration'
    ctx.cov['rule'] = ('well-formed base protocols (feature matrix + random + rich) -> every single-fault variant of 17 fault classes at every site (fault_enumeration, exhaustive per base); '
                       'each compiled by the real CLI with all six output flags; oracle: non-zero exit, a "Syntax error at line N" whose N lies in the line span of the offending declaration '
                       '(known because the harness prints the text), the offending identifier named, no file written; un-faulted bases must be accepted with no diagnostic. '
                       'distinct = (fault class, base) pairs')
    ctx.cov['exhaustive'] = False
    ctx.cov['exhaustive_in'] = 'fault sites per base protocol (all sites of all classes); base protocols are sampled'
    nmat, nrand, nrich = (40, 25, 6) if quick else (400, 300, 40)
    rng0 = random.Random('%s/c12' % ctx.seed)
    mat = gen.matrix_protos()
    rng0.shuffle(mat)
    # always keep the bases that carry length/match/metadata/inline features
    keep = [p for p in mat if p.tag.startswith(('Ml', 'Mm', 'Md', 'Mo', 'Mc'))][:(30 if quick else 400)]
    pool = keep + mat[:nmat]
    seen = set()
    pool = [p for p in pool if not (p.tag in seen or seen.add(p.tag))]
    for i in range(nrand):
        pool.append(gen.random_proto(random.Random('%s/c12r%d' % (ctx.seed, i)), gen.alpha_tag('Dg', i)))
    for i in range(nrich):
        pool.append(gen.rich_proto(random.Random('%s/c12h%d' % (ctx.seed, i)), gen.alpha_tag('Dh', i), npk=4))
    jobs = []
    per_class = {}
    for base in pool:
        rng = random.Random('%s/%s/l' % (ctx.seed, base.tag))
        jobs.append(('base', base, None, dslprint.tokens(base), rng.choice(['pretty', 'tabs', 'random', 'tokenperline']), rng.randint(0, 3)))
        for fl in faults.inject_all(base):
            toks = dslprint.tokens(fl.proto)
            jobs.append(('fault', base, fl, toks, rng.choice(['pretty', 'pretty', 'tabs', 'random', 'tokenperline', 'oneline']), rng.randint(0, 4)))

    ctx.cli
    jobs = [j + (n,) for n, j in enumerate(jobs)]

    def one(job):
        kind, base, fl, toks, style, shift, jn = job
        rng = random.Random('%s/%s/%s/%s' % (ctx.seed, base.tag, fl.site if fl else '', style))
        pre = []
        for k in range(shift):
            pre.append(dslprint.Comment('// header %d' % k, own_line=True))
        toks2 = pre + toks
        text, lines = dslprint.layout(toks2, style, rng, eol='\n')
        if fl is not None and rng.random() < 0.3 and text.endswith('\n'):
            text = text.rstrip('\n')     # last line without newline
        wd = os.path.join(ctx.scr.dir, 'c12', 'j%d' % jn)
        rc, out, written = compile_all_targets(ctx, text, wd)
        shutil.rmtree(wd, ignore_errors=True)
        span = dslprint.marked_lines(toks2, lines) if fl else set()
        return job, text, rc, out.decode('utf-8', 'replace'), written, span
    with ThreadPoolExecutor(max_workers=16) as ex:
        results = list(ex.map(one, jobs))
    nb = 0
    for (kind, base, fl, toks, style, shift, jn), text, rc, out, written, span in results:
        cr = crashed(rc, out.encode())
        diags = [(int(m.group(1)), m.group(3)) for m in DIAG_RE.finditer(out)]
        listener = [(int(m.group(1)), m.group(3)) for m in LISTENER_RE.finditer(out)] if 'syntax errors found' in out else []
        if kind == 'base':
            nb += 1
            ctx.evaluated(1, key=('accept', base.tag))
            if cr:
                triage12(ctx, 'none', base, None, 'wellformed-crash', 'compiler crashes on a well-formed protocol: %s' % cr, {'dsl': text, 'output': out[-1500:]})
            elif rc != 0 or diags or listener:
                triage12(ctx, 'none', base, None, 'wellformed-rejected', 'well-formed protocol is rejected: rc=%d %s %s' % (rc, diags[:2], out[-200:] if not diags else ''), {'dsl': text, 'output': out[-1500:]})
            continue
        cls = fl.cls
        per_class[cls] = per_class.get(cls, 0) + 1
        ctx.evaluated(1, key=(cls, base.tag))
        rep = {'dsl': text, 'fault_class': cls, 'site': fl.site, 'expected_lines': sorted(span), 'identifier': fl.ident, 'exit_status': rc, 'output': out[-1500:], 'layout': style}
        if cr:
            triage12(ctx, cls, base, fl, 'crash', '%s: %s' % (fl.site, cr), rep)
            continue
        if rc == 0:
            triage12(ctx, cls, base, fl, 'accepted', '%s: exit status 0, diagnostics=%s' % (fl.site, diags[:2]), rep)
            if written:
                pass
            continue
        if written:
            triage12(ctx, cls, base, fl, 'files-written', '%s: rejected but wrote %s' % (fl.site, written[:3]), rep)
        at = [d for d in diags + listener if d[0] in span]
        if not at:
            triage12(ctx, cls, base, fl, 'no-diagnostic-at-line', '%s: expected a diagnostic at line %s, got %s' % (fl.site, sorted(span), (diags + listener)[:3]), rep)
            continue
        if fl.ident and not any(fl.ident in d[1] for d in at):
            triage12(ctx, cls, base, fl, 'diagnostic-lacks-identifier', '%s: diagnostic at the right line does not name %r: %s' % (fl.site, fl.ident, at[:2]), rep)
        if len(ctx.cov['samples']) < 5 and cls not in [s.get('fault_class') for s in ctx.cov['samples']]:
            ctx.sample({'fault_class': cls, 'site': fl.site, 'expected_lines': sorted(span), 'diagnostics': at[:2], 'exit_status': rc})
    ctx.cov['faulted_runs_per_class'] = per_class
    ctx.cov['wellformed_bases'] = nb
    strace_sample(ctx, results)
    probes(ctx, 'C12')


def strace_sample(ctx, results, n=12):
    """observe file-system effects of rejected compilations with strace: no mkdir / write-open under the output directories."""
    picked = [r for r in results if r[0][0] == 'fault' and r[2] != 0][:n]
    seen = 0
    for (kind, base, fl, toks, style, shift, jn), text, rc, out, written, span in picked:
        wd = os.path.join(ctx.scr.dir, 'c12s', base.tag + str(seen))
        os.makedirs(wd, exist_ok=True)
        src = os.path.join(wd, 'in.dsl')
        with open(src, 'w') as f:
            f.write(text)
        args = ['-f', src]
        for l in tools.LANGS:
            args += [FLAGS[l], os.path.join(wd, 'o_' + l)]
        log = os.path.join(wd, 'strace.log')
        subprocess.run(['strace', '-f', '-qq', '-e', 'trace=openat,open,creat,mkdir,mkdirat,rename,renameat,renameat2,unlink,unlinkat', '-o', log, ctx.cli] + args,
                       stdout=subprocess.DEVNULL, stderr=subprocess.DEVNULL, cwd=wd)
        try:
            with open(log) as f:
                tr = f.read()
        except OSError:
            ctx.notes.append('strace unavailable')
            return
        seen += 1
        bad = [l for l in tr.split('\n') if '/o_' in l and ('mkdir' in l or 'O_WRONLY' in l or 'O_RDWR' in l or 'O_CREAT' in l or 'creat(' in l)]
        ctx.counters['strace_observed_rejections'] += 1
        if bad:
            triage12(ctx, fl.cls, base, fl, 'files-written', 'strace: rejected compile touched the output directories: %s' % bad[:2], {'dsl': text, 'strace': bad[:10]})
        shutil.rmtree(wd, ignore_errors=True)


CHECKS = {'C12': c12}

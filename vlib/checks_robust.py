"""C12 (diagnostics), C11 (no crash), C16 (entry points)."""
import os
import random
import re
import shutil
import subprocess
from concurrent.futures import ThreadPoolExecutor

from . import dslprint, faults, gen, tools
from .checks_meta import FLAGS, POOL_SEED, base_pool, read_tree, tree_diff, probes
from .spec import features

DIAG_RE = re.compile(r'^Syntax error at line (\d+), column (-?\d+): (.*)$', re.M)
LISTENER_RE = re.compile(r'\{(\d+) (\d+) ([^{}]*?) (?:\[@|<nil>|0x)')


def run_cli(ctx, args, cwd, timeout=120, stdin=None):
    logp = os.path.join(cwd, 'cli.out')
    with open(logp, 'wb') as lf:
        p = subprocess.run(['timeout', '-s', 'QUIT', '-k', '5', str(timeout), ctx.cli] + args, stdout=lf, stderr=subprocess.STDOUT, cwd=cwd, stdin=subprocess.DEVNULL)
    with open(logp, 'rb') as lf:
        out = lf.read()
    return p.returncode, out


def crashed(rc, out):
    t = out.decode('utf-8', 'replace')
    if rc in (124, 137) or rc == 131:
        return 'watchdog'
    if 'panic:' in t or 'fatal error:' in t or re.search(r'goroutine \d+ \[running\]', t):
        m = re.search(r'(panic: [^\n]*|fatal error: [^\n]*)', t)
        site = re.search(r'fin-protoc/internal/([a-z]+/[a-z_]+\.go):(\d+)', t)
        return '%s @ %s' % (m.group(1) if m else 'crash', site.group(0) if site else '?')
    if rc < 0 or rc > 1 and rc not in (2,):
        return 'exit status %d' % rc
    if rc == 2 and ('panic' in t or 'goroutine' in t):
        return 'exit status 2'
    return None


def compile_all_targets(ctx, text, wd):
    os.makedirs(wd, exist_ok=True)
    src = os.path.join(wd, 'in.dsl')
    with open(src, 'wb') as f:
        f.write(text.encode('utf-8', 'surrogateescape') if isinstance(text, str) else text)
    args = ['-f', src]
    outs = {}
    for l in tools.LANGS:
        d = os.path.join(wd, 'o_' + l)
        outs[l] = d
        args += [FLAGS[l], d]
    rc, out = run_cli(ctx, args, wd)
    written = []
    for l, d in outs.items():
        if os.path.isdir(d):
            for dp, dn, fn in os.walk(d):
                for f in fn:
                    written.append(os.path.relpath(os.path.join(dp, f), wd))
            if not written:
                written.append(os.path.relpath(d, wd) + '/')
    return rc, out, written


def triage12(ctx, cls, base, fl, symptom, what, replay):
    from . import check
    feats = set(features(base)) | {'fault:' + cls}
    app = [fd for fd in check.applicable(ctx.findings_db, 'C12', 'compile', feats) if check.symptom_matches(fd, symptom, what)]
    if app:
        ctx.finding_excluded[app[0]['id']] += 1
        ctx.known_finding(app[0]['id'], app[0]['what'])
        return
    ctx.violation(('C12', cls, symptom, base.tag), '%s [%s on %s] %s' % (symptom, cls, base.tag, what), replay)


WELLFORMED_TEXTS = [
    ('names-differ-in-case', 'root packet A { u8 OrderID, u16 orderId, u32 ORDERID, string Px, string PX, B b, B B, }\npacket B { u8 x, u8 X, }'),
    ('names-differ-in-underscores', 'root packet A { u8 order_id, u16 orderid, u32 order__id, u8 _x, u8 x_, }'),
    ('inline-members-differ-in-case', 'root packet A { Leg { u8 Side, u8 side, }, leg { u8 Side, }, }'),
    ('packet-names-differ-in-case', 'root packet A { Body, body b2, }\npacket Body { u8 X, }\npacket body { u8 X, }'),
    ('unreferenced-packet', 'root packet A { u8 X, }\npacket Orphan { u8 Y, }\npacket Orphan2 { Orphan O, }'),
    ('empty-options', 'options { }\nroot packet A { u8 X, }'),
    ('two-metadata-blocks', 'MetaData M1 { u8 A `a`, }\nMetaData M2 { u16 B `b`, A C `c`, }\nroot packet P { A, B, C, repeat C Cs, }'),
    ('metadata-chain', 'MetaData M { u32 A `a`, A B `b`, B C `c`, C D `d`, }\nroot packet P { D, D Again, repeat D Ds, }'),
    ('empty-string-key', 'root packet A { string K, match K as Body { "" : B, "x" : C, }, }\npacket B { }\npacket C { u8 Y, }'),
    ('key-with-punctuation', 'root packet A { string K, match K as Body { "A,B" : B, ["C,D", "E F", "G:H"] : C, }, }\npacket B { }\npacket C { u8 Y, }'),
    ('same-key-in-two-matches', 'root packet A { u8 K, match K as B1 { 1 : B, 2 : C, }, Sub, }\npacket Sub { u8 K, match K as B2 { 1 : C, 2 : B, }, }\npacket B { }\npacket C { u8 Y, }'),
    ('zero-length-strings', 'root packet A { char[0] X, zchar[0] Y, repeat char[0] Zs, u8 T, }'),
    ('big-keys', 'root packet A { u64 K, match K as Body { 18446744073709551615 : B, 0 : C, 9223372036854775808 : C, }, }\npacket B { }\npacket C { u8 Y, }'),
    ('field-named-like-its-type', 'root packet A { B B, C C, }\npacket B { u8 B, }\npacket C { B B, }'),
    ('one-line-crlf-tabs', 'options{LittleEndian=true;}\r\nroot\tpacket\tA{u8\tX,match X as B{1:C,2:C},}\r\npacket C{}'),
    ('comment-at-eof-without-newline', 'root packet A { u8 X, } // the end'),
    ('doc-everywhere', 'MetaData M { u8 A `a\nb`, A B `c`, }\nroot packet P { A `x`, B Bb `y`, repeat u8 L `z`, Q `q`, Q Named `qq`, u16 Ln @lengthOf(T) `len`, T, u32 Ck @calculatedFrom("CRC32") `ck`, }\npacket Q { }\npacket T { }'),
]


def c12(ctx):
    quick = ctx.tier == 'quick'
    ctx.level = 'fault_enumeration'
    ctx.cov['rule'] = ('well-formed base protocols (feature matrix + random + rich) -> every single-fault variant of 17 fault classes at every site (fault_enumeration, exhaustive per base); '
                       'each compiled by the real CLI with all six output flags; oracle: non-zero exit, a "Syntax error at line N" whose N lies in the line span of the offending declaration '
                       '(known because the harness prints the text), the offending identifier named, no file written; un-faulted bases must be accepted with no diagnostic. '
                       'distinct = (fault class, base) pairs')
    ctx.cov['exhaustive'] = False
    ctx.cov['exhaustive_in'] = 'fault sites per base protocol (all sites of all classes); base protocols are sampled'
    nmat, nrand, nrich = (40, 25, 6) if quick else (400, 300, 40)
    rng0 = random.Random('%s/c12' % ctx.seed)
    mat = gen.matrix_protos()
    rng0.shuffle(mat)
    # always keep the bases that carry length/match/metadata/inline features
    keep = [p for p in mat if p.tag.startswith(('Ml', 'Mm', 'Md', 'Mo', 'Mc'))][:(30 if quick else 400)]
    pool = keep + mat[:nmat]
    seen = set()
    pool = [p for p in pool if not (p.tag in seen or seen.add(p.tag))]
    for i in range(nrand):
        pool.append(gen.random_proto(random.Random('%s/c12r%d' % (POOL_SEED, i)), gen.alpha_tag('Dg', i)))
    for i in range(nrich):
        pool.append(gen.rich_proto(random.Random('%s/c12h%d' % (POOL_SEED, i)), gen.alpha_tag('Dh', i), npk=4))
    jobs = []
    per_class = {}
    for base in pool:
        rng = random.Random('%s/%s/l' % (ctx.seed, base.tag))
        jobs.append(('base', base, None, dslprint.tokens(base), rng.choice(['pretty', 'tabs', 'random', 'tokenperline']), rng.randint(0, 3)))
        for fl in faults.inject_all(base):
            toks = dslprint.tokens(fl.proto)
            jobs.append(('fault', base, fl, toks, rng.choice(['pretty', 'pretty', 'tabs', 'random', 'tokenperline', 'oneline']), rng.randint(0, 4)))

    ctx.cli
    jobs = [j + (n,) for n, j in enumerate(jobs)]

    def one(job):
        kind, base, fl, toks, style, shift, jn = job
        rng = random.Random('%s/%s/%s/%s' % (ctx.seed, base.tag, fl.site if fl else '', style))
        pre = []
        for k in range(shift):
            pre.append(dslprint.Comment('// header %d' % k, own_line=True))
        toks2 = pre + toks
        text, lines = dslprint.layout(toks2, style, rng, eol='\n')
        if fl is not None and rng.random() < 0.3 and text.endswith('\n'):
            text = text.rstrip('\n')     # last line without newline
        wd = os.path.join(ctx.scr.dir, 'c12', 'j%d' % jn)
        rc, out, written = compile_all_targets(ctx, text, wd)
        shutil.rmtree(wd, ignore_errors=True)
        span = dslprint.marked_lines(toks2, lines) if fl else set()
        return job, text, rc, out.decode('utf-8', 'replace'), written, span
    with ThreadPoolExecutor(max_workers=16) as ex:
        results = list(ex.map(one, jobs))
    nb = 0
    for (kind, base, fl, toks, style, shift, jn), text, rc, out, written, span in results:
        cr = crashed(rc, out.encode())
        diags = [(int(m.group(1)), m.group(3)) for m in DIAG_RE.finditer(out)]
        listener = [(int(m.group(1)), m.group(3)) for m in LISTENER_RE.finditer(out)] if 'syntax errors found' in out else []
        if kind == 'base':
            nb += 1
            ctx.evaluated(1, key=('accept', base.tag))
            if cr:
                triage12(ctx, 'none', base, None, 'wellformed-crash', 'compiler crashes on a well-formed protocol: %s' % cr, {'dsl': text, 'output': out[-1500:]})
            elif rc != 0 or diags or listener:
                triage12(ctx, 'none', base, None, 'wellformed-rejected', 'well-formed protocol is rejected: rc=%d %s %s' % (rc, diags[:2], out[-200:] if not diags else ''), {'dsl': text, 'output': out[-1500:]})
            continue
        cls = fl.cls
        per_class[cls] = per_class.get(cls, 0) + 1
        ctx.evaluated(1, key=(cls, base.tag))
        rep = {'dsl': text, 'fault_class': cls, 'site': fl.site, 'expected_lines': sorted(span), 'identifier': fl.ident, 'exit_status': rc, 'output': out[-1500:], 'layout': style}
        if cr:
            triage12(ctx, cls, base, fl, 'crash', '%s: %s' % (fl.site, cr), rep)
            continue
        if rc == 0:
            triage12(ctx, cls, base, fl, 'accepted', '%s: exit status 0, diagnostics=%s' % (fl.site, diags[:2]), rep)
            if written:
                pass
            continue
        if written:
            triage12(ctx, cls, base, fl, 'files-written', '%s: rejected but wrote %s' % (fl.site, written[:3]), rep)
        at = [d for d in diags + listener if d[0] in span]
        if not at:
            triage12(ctx, cls, base, fl, 'no-diagnostic-at-line', '%s: expected a diagnostic at line %s, got %s' % (fl.site, sorted(span), (diags + listener)[:3]), rep)
            continue
        if fl.ident and not any(fl.ident in d[1] for d in at):
            triage12(ctx, cls, base, fl, 'diagnostic-lacks-identifier', '%s: diagnostic at the right line does not name %r: %s' % (fl.site, fl.ident, at[:2]), rep)
        if len(ctx.cov['samples']) < 5 and cls not in [s.get('fault_class') for s in ctx.cov['samples']]:
            ctx.sample({'fault_class': cls, 'site': fl.site, 'expected_lines': sorted(span), 'diagnostics': at[:2], 'exit_status': rc})
    ctx.cov['faulted_runs_per_class'] = per_class
    ctx.cov['wellformed_bases'] = nb
    strace_sample(ctx, results)
    # ---- acceptance lane: every protocol of the feature matrix (canonical and in its fixed rewritten spelling) and a list of
    # hand-written well-formed texts with unusual but legal content must be accepted without a diagnostic (in-process, same
    # steps as the CLI's parse)
    from . import pipeline
    nacc = 0
    for p in gen.matrix_protos():
        for text in {dslprint.render(p), pipeline.spelled(p)}:
            r = ctx.vapi.compile(text, [])
            nacc += 1
            ctx.evaluated(1, key=(p.tag, 'accepted', len(text) % 7))
            if r.get('syn_err') or r.get('diags') or not r.get('parsed'):
                ctx.violation(('C12', 'well-formed-rejected', p.tag), 'well-formed-rejected [%s] %s %s' % (p.tag, (r.get('syn_err') or '')[:200], r.get('diags')), {'dsl': text, 'diags': r.get('diags'), 'syn_err': r.get('syn_err')})
                break
    for label, text in WELLFORMED_TEXTS:
        r = ctx.vapi.compile(text, [])
        nacc += 1
        ctx.evaluated(1, key=('wellformed', label))
        if r.get('syn_err') or r.get('diags') or not r.get('parsed'):
            ctx.violation(('C12', 'well-formed-rejected', label), 'well-formed-rejected [%s] %s %s' % (label, (r.get('syn_err') or '')[:200], r.get('diags')), {'dsl': text, 'diags': r.get('diags'), 'syn_err': r.get('syn_err')})
    ctx.cov['acceptance_lane_texts'] = nacc
    probes(ctx, 'C12')


def strace_sample(ctx, results, n=12):
    """observe file-system effects of rejected compilations with strace: no mkdir / write-open under the output directories."""
    picked = [r for r in results if r[0][0] == 'fault' and r[2] != 0][:n]
    seen = 0
    for (kind, base, fl, toks, style, shift, jn), text, rc, out, written, span in picked:
        wd = os.path.join(ctx.scr.dir, 'c12s', base.tag + str(seen))
        os.makedirs(wd, exist_ok=True)
        src = os.path.join(wd, 'in.dsl')
        with open(src, 'w') as f:
            f.write(text)
        args = ['-f', src]
        for l in tools.LANGS:
            args += [FLAGS[l], os.path.join(wd, 'o_' + l)]
        log = os.path.join(wd, 'strace.log')
        subprocess.run(['strace', '-f', '-qq', '-e', 'trace=openat,open,creat,mkdir,mkdirat,rename,renameat,renameat2,unlink,unlinkat', '-o', log, ctx.cli] + args,
                       stdout=subprocess.DEVNULL, stderr=subprocess.DEVNULL, cwd=wd)
        try:
            with open(log) as f:
                tr = f.read()
        except OSError:
            ctx.notes.append('strace unavailable')
            return
        seen += 1
        bad = [l for l in tr.split('\n') if '/o_' in l and ('mkdir' in l or 'O_WRONLY' in l or 'O_RDWR' in l or 'O_CREAT' in l or 'creat(' in l)]
        ctx.counters['strace_observed_rejections'] += 1
        if bad:
            triage12(ctx, fl.cls, base, fl, 'files-written', 'strace: rejected compile touched the output directories: %s' % bad[:2], {'dsl': text, 'strace': bad[:10]})
        shutil.rmtree(wd, ignore_errors=True)


CHECKS = {'C12': c12}


# ------------------------------------------------------------------------------------------------ C export host

CHOST_SRC = os.path.join(tools.VERIF, 'runtimes', 'chost', 'host.c')


def build_chost(ctx):
    so = ctx.so
    d = os.path.dirname(so)
    out = os.path.join(d, 'chost')
    if os.path.exists(out):
        return out
    rc, log = tools.run(['clang', '-g', '-O1', '-fsanitize=address,undefined', '-fno-sanitize-recover=all', '-fno-omit-frame-pointer', CHOST_SRC, '-o', out,
                         '-L', d, '-lpacketdsl', '-Wl,-rpath,' + d])
    if rc != 0:
        raise tools.BuildError('C host build failed:\n' + log)
    return out


def run_chost(ctx, inputs, name, batch=200):
    """inputs: [(id, bytes)] -> {id: bytes|('CRASH', text)}; one child per batch, each input written to disk first."""
    host = build_chost(ctx)
    res = {}
    d = os.path.join(ctx.scr.dir, 'chost_' + name)
    os.makedirs(d, exist_ok=True)
    env = dict(os.environ)
    env['ASAN_OPTIONS'] = 'halt_on_error=1:abort_on_error=0:detect_leaks=1:exitcode=97'
    env['UBSAN_OPTIONS'] = 'halt_on_error=1:print_stacktrace=1'
    queue = list(inputs)
    bn = 0
    while queue:
        chunk, queue = queue[:batch], queue[batch:]
        bn += 1
        lst = os.path.join(d, 'list%d.txt' % bn)
        with open(lst, 'w') as lf:
            for cid, data in chunk:
                p = os.path.join(d, 'in_%s.bin' % cid)
                with open(p, 'wb') as f:
                    f.write(data)
                lf.write('%s %s\n' % (cid, p))
        outp = os.path.join(d, 'out%d.txt' % bn)
        with open(outp, 'wb') as of:
            p = subprocess.run(['timeout', '-s', 'QUIT', '-k', '5', '300', host, lst], stdout=of, stderr=subprocess.STDOUT, env=env)
        with open(outp, 'rb') as of:
            text = of.read().decode('utf-8', 'replace')
        begun = None
        done = False
        for line in text.split('\n'):
            if line.startswith('BEGIN '):
                begun = line[6:]
            elif line.startswith('RESULT '):
                parts = line.split(' ')
                res[parts[1]] = bytes.fromhex(parts[3]) if len(parts) > 3 and parts[2] != '-1' else b''
                begun = None
            elif line == 'DONE':
                done = True
        if not done:
            # the child died while processing `begun`; everything after it in the chunk is re-queued
            ids = [c for c, _ in chunk]
            if begun in ids:
                res[begun] = ('CRASH', 'exit %s: %s' % (p.returncode, text[-1800:]))
                rest = chunk[ids.index(begun) + 1:]
                queue = rest + queue
            else:
                for c, _ in chunk:
                    if c not in res:
                        res[c] = ('CRASH', 'host died before BEGIN (exit %s): %s' % (p.returncode, text[-800:]))
        elif 'ERROR: AddressSanitizer' in text or 'ERROR: LeakSanitizer' in text or 'runtime error:' in text:
            for c, _ in chunk:
                if not isinstance(res.get(c), tuple):
                    pass
            res['__sanitizer__%d' % bn] = ('CRASH', 'sanitizer report in batch %d: %s' % (bn, text[-1800:]))
        for cid, _ in chunk:
            try:
                os.remove(os.path.join(d, 'in_%s.bin' % cid))
            except OSError:
                pass
    return res


# ------------------------------------------------------------------------------------------------ C11

def triage11(ctx, label, entry, symptom, site, what, replay):
    from . import check
    feats = {'label:' + label, 'label0:' + label.split('/')[0], 'entry:' + entry, 'site:' + (site or '?')}
    app = [fd for fd in check.applicable(ctx.findings_db, 'C11', 'any', feats) if check.symptom_matches(fd, symptom, what)]
    if app:
        ctx.finding_excluded[app[0]['id']] += 1
        ctx.known_finding(app[0]['id'], app[0]['what'])
        return
    ctx.violation(('C11', symptom, entry, site or label), '%s via %s [%s] %s' % (symptom, entry, label, what), replay)


def c11(ctx):
    from . import hostile
    quick = ctx.tier == 'quick'
    ctx.cov['rule'] = ('(a) every fieldDefinition alternative x optional elements x each attribute, option name x value kind, MetaData/packet shapes; (b) semantically ill-formed programs '
                       '(single-fault variants of every C12 class, recursion, no root, huge DIGITS, key/type mismatches); (c) byte level (every prefix of valid texts, byte flips/deletes/inserts, '
                       'random bytes, token soup, invalid UTF-8, NUL, 64 KiB line, nesting 10/1000/20000). Each through format and parse+all six generators in-process (recover() + stack), '
                       'a sample through the real CLI (format -d, format -f, compile with six outputs) and all through FormatPacketDslExport in an ASan/UBSan/LSan C host. '
                       'oracle: no recovered panic, no child death/fatal error/sanitizer report; watchdog expiry = inconclusive. distinct = (label, entry point) pairs x distinct texts')
    texts = []
    for label, t in hostile.shape_texts():
        texts.append((label, t.encode('utf-8', 'surrogateescape')))
    for label, t in hostile.semantic_texts(ctx.seed, quick):
        texts.append((label, t.encode('utf-8', 'surrogateescape')))
    valid = [dslprint.render(p) for p in gen.matrix_protos()[::17]]
    texts += hostile.byte_texts(ctx.seed, quick, valid)
    seen = set()
    uniq = []
    for label, b in texts:
        if b in seen:
            continue
        seen.add(b)
        uniq.append((label, b))
    texts = uniq
    ctx.cov['texts'] = len(texts)
    labels = {}
    sites = {}
    # ---- in-process
    v = ctx.vapi
    for i, (label, b) in enumerate(texts):
        labels[label.split('/')[0]] = labels.get(label.split('/')[0], 0) + 1
        rep = {'label': label, 'input_b64': tools.b64(b), 'input_preview': b[:300].decode('utf-8', 'replace')}
        for entry in ('format', 'compile'):
            ctx.evaluated(1, key=(label, entry, hash(b) % 100000))
            try:
                if entry == 'format':
                    r = v.call({'op': 'format', 'text_b64': tools.b64(b)}, timeout=180)
                    pans = [('format', r['panic'])] if r.get('panic') else []
                else:
                    r = v.call({'op': 'compile', 'text_b64': tools.b64(b), 'langs': tools.LANGS, 'shared': True}, timeout=180)
                    pans = list((r.get('panics') or {}).items())
            except tools.VapiDied as e:
                if str(e) == 'timeout':
                    from . import check as _ck
                    feats = {'label:' + label, 'label0:' + label.split('/')[0], 'entry:in-process ' + entry}
                    app = [fd for fd in _ck.applicable(ctx.findings_db, 'C11', 'any', feats) if _ck.symptom_matches(fd, 'watchdog', '')]
                    if app:
                        ctx.finding_excluded[app[0]['id']] += 1
                        ctx.known_finding(app[0]['id'], app[0]['what'])
                    else:
                        ctx.inconc('watchdog: %s of a %s text did not finish in 180 s' % (entry, label))
                    continue
                m = re.search(r'(fatal error: [^\n]*|panic: [^\n]*)', e.stderr_tail or '')
                st = re.search(r'fin-protoc/internal/([a-z]+/[a-z_]+\.go):(\d+)', e.stderr_tail or '')
                site = st.group(1) if st else '?'
                triage11(ctx, label, 'in-process ' + entry, 'fatal', site, 'process died (%s): %s' % (e, m.group(1) if m else (e.stderr_tail or '')[-200:]), dict(rep, stderr=(e.stderr_tail or '')[-3000:]))
                continue
            for stage, pn in pans:
                sites[pn['site']] = sites.get(pn['site'], 0) + 1
                triage11(ctx, label, 'in-process %s/%s' % (entry, stage), 'panic', pn['site'], 'recovered panic at %s: %s' % (pn['site'], pn['value']), dict(rep, panic=pn))
    ctx.cov['labels'] = labels
    ctx.cov['panic_sites_seen'] = sites
    # ---- CLI children (sample)
    ctx.cli
    step = 3 if quick else 1
    sample = [(i, l, b) for i, (l, b) in enumerate(texts) if i % step == 0 or not l.startswith(('prefix', 'byte-', 'token-soup', 'random-bytes', 'shape-attr'))]

    def cli_one(job):
        i, label, b = job
        wd = os.path.join(ctx.scr.dir, 'c11', 'j%d' % i)
        os.makedirs(wd, exist_ok=True)
        out = []
        src = os.path.join(wd, 'in.dsl')
        with open(src, 'wb') as f:
            f.write(b)
        rc, o, written = compile_all_targets(ctx, b, wd)
        out.append(('compile', rc, o))
        with open(src, 'wb') as f:
            f.write(b)
        rc, o = run_cli(ctx, ['format', '-f', src], wd)
        out.append(('format -f', rc, o))
        if b and b'\x00' not in b and len(b) < 100000:
            try:
                arg = b.decode('utf-8')
                rc, o = run_cli(ctx, ['format', '-d', arg], wd)
                out.append(('format -d', rc, o))
            except UnicodeDecodeError:
                pass
        shutil.rmtree(wd, ignore_errors=True)
        return job, out
    with ThreadPoolExecutor(max_workers=16) as ex:
        for (i, label, b), outs in ex.map(cli_one, sample):
            for entry, rc, o in outs:
                ctx.evaluated(1, key=(label, 'cli ' + entry, hash(b) % 100000))
                cr = crashed(rc, o)
                if cr == 'watchdog':
                    from . import check as _ck
                    feats = {'label:' + label, 'label0:' + label.split('/')[0], 'entry:cli ' + entry}
                    app = [fd for fd in _ck.applicable(ctx.findings_db, 'C11', 'any', feats) if _ck.symptom_matches(fd, 'watchdog', '')]
                    if app:
                        ctx.finding_excluded[app[0]['id']] += 1
                        ctx.known_finding(app[0]['id'], app[0]['what'])
                    else:
                        ctx.inconc('watchdog: CLI %s of a %s text did not finish' % (entry, label))
                elif cr:
                    st = re.search(r'fin-protoc/internal/([a-z]+/[a-z_]+\.go):(\d+)', o.decode('utf-8', 'replace'))
                    fn = re.search(r'fin-protoc/internal/[a-z]+\.\(?\*?([A-Za-z]+)\)?\.([A-Za-z]+)\(', o.decode('utf-8', 'replace'))
                    site = (st.group(1) + ':' + (fn.group(1) + '.' + fn.group(2) if fn else '?')) if st else '?'
                    triage11(ctx, label, 'cli ' + entry, 'cli-crash', site, '%s' % cr, {'label': label, 'input_b64': tools.b64(b), 'input_preview': b[:300].decode('utf-8', 'replace'), 'output': o.decode('utf-8', 'replace')[-2500:]})
    ctx.cov['cli_texts'] = len(sample)
    # ---- exported C function under ASan/UBSan/LSan
    exp = [(str(i), b) for i, (l, b) in enumerate(texts)]
    res = run_chost(ctx, exp, 'c11')
    for i, (label, b) in enumerate(texts):
        r = res.get(str(i))
        ctx.evaluated(1, key=(label, 'export', hash(b) % 100000))
        if isinstance(r, tuple):
            st = re.search(r'fin-protoc/internal/([a-z]+/[a-z_]+\.go):(\d+)', r[1])
            triage11(ctx, label, 'export', 'host-crash', st.group(1) if st else '?', 'host process died in FormatPacketDslExport: %s' % r[1][-300:].replace('\n', ' | '),
                     {'label': label, 'input_b64': tools.b64(b), 'input_preview': b[:300].decode('utf-8', 'replace'), 'output': r[1]})
        elif r is None:
            ctx.counters['export-not-run'] += 1
    for k, r in res.items():
        if k.startswith('__sanitizer__'):
            triage11(ctx, 'batch', 'export', 'sanitizer-report', '?', r[1][-600:], {'output': r[1]})
    ctx.cov['export_calls'] = len(exp)
    ctx.sample({'label': texts[5][0], 'input': texts[5][1][:200].decode('utf-8', 'replace')})
    ctx.sample({'label': texts[-1][0], 'input': texts[-1][1][:200].decode('utf-8', 'replace')})
    ctx.assumptions += ['hang detection is a bounded watchdog (180 s in-process, 120 s per child) whose expiry is inconclusive, not a violation',
                        'the C API takes NUL-terminated strings: inputs with an embedded NUL reach the export truncated at the NUL']
    growth_lane(ctx)
    probes(ctx, 'C11')


def growth_lane(ctx):
    """"never hangs", decided without a wall-clock deadline: for input families whose size is one number (nesting depth, list length,
    number of packets) the CPU time of the compiler child is measured at growing sizes; an (at least) exponential family shows
    as a constant factor per constant size STEP. Verdict only from ratios of CPU times, and only when the larger one is long
    enough to be measured (>= 0.5 s): machine speed and load cancel out. Nothing is concluded from a run the watchdog ends."""
    import resource

    def nest(d):
        return 'root packet A { ' + ''.join('L%d { u8 X%d, ' % (i, i) for i in range(d)) + ''.join('}, ' for _ in range(d)) + '}'

    def wide(d):
        return 'root packet A { u8 K, match K as B { %s }, }\n' % ' '.join('%d : P%d,' % (i, i) for i in range(d * 8)) + ''.join('packet P%d { u8 X, }\n' % i for i in range(d * 8))

    def chain(d):
        return 'root packet P0 { P1 Next, }\n' + ''.join('packet P%d { P%d Next, u8 X, }\n' % (i, i + 1) for i in range(1, d)) + 'packet P%d { u8 X, }' % d

    fams = [('inline-nesting-depth', nest, ['lua']), ('match-pairs-x8', wide, ['lua', 'python']), ('reference-chain-length', chain, ['lua'])]
    sizes = [8, 12, 16, 20, 24]
    for name, make_text, langs in fams:
        prev = None
        for d in sizes:
            wd = os.path.join(ctx.scr.dir, 'growth', name, str(d))
            os.makedirs(wd, exist_ok=True)
            with open(os.path.join(wd, 'in.dsl'), 'w') as f:
                f.write(make_text(d))
            args = [ctx.cli, '-f', 'in.dsl'] + sum([[FLAGS[l], 'o_' + l] for l in langs], [])
            before = resource.getrusage(resource.RUSAGE_CHILDREN)
            p = subprocess.run(['timeout', '-s', 'KILL', '90'] + args, stdout=subprocess.DEVNULL, stderr=subprocess.DEVNULL, cwd=wd)
            after = resource.getrusage(resource.RUSAGE_CHILDREN)
            cpu = (after.ru_utime - before.ru_utime) + (after.ru_stime - before.ru_stime)
            shutil.rmtree(wd, ignore_errors=True)
            ctx.counters['growth-lane-runs'] += 1
            if p.returncode in (137, -9, 124):
                cpu = max(cpu, 60.0) if cpu > 30 else None        # ended by the watchdog: usable only if it really burned CPU
            if cpu is None:
                break
            ctx.evaluated(1, key=('growth', name, d))
            if prev is not None and cpu >= 0.5 and prev[1] > 0 and cpu / max(prev[1], 1e-3) >= 6.0 and (d - prev[0]) <= 4:
                triage11(ctx, 'growth/' + name, 'cli compile', 'superlinear-blowup', name,
                         'CPU time of `compile` grows by a factor %.1f (%.2fs -> %.2fs) when %s goes from %d to %d: exponential growth, a valid input of size %d would not terminate in any useful time' % (
                             cpu / max(prev[1], 1e-3), prev[1], cpu, name, prev[0], d, d + 12),
                         {'label': 'growth/' + name, 'input_preview': make_text(d)[:400], 'sizes': [prev[0], d], 'cpu_seconds': [prev[1], cpu]})
                break
            prev = (d, cpu)
    ctx.cov['growth_lane'] = 'CPU-time ratios over sizes %s for %s' % (sizes, [f[0] for f in fams])


CHECKS['C11'] = c11


# ------------------------------------------------------------------------------------------------ resource probes (C11)

from . import probes as _probes


@_probes.prober('cli-resource')
def probe_cli_resource(ctx, prop, fd, pr):
    """run `fin-protoc compile` on the probe text in a child with a memory limit and a short watchdog.
    same = watchdog expiry or out-of-memory death (the recorded blow-up); None = finished normally."""
    wd = os.path.join(ctx.scr.dir, 'probe_' + fd['id'])
    os.makedirs(wd, exist_ok=True)
    src = os.path.join(wd, 'in.dsl')
    text = pr['text']
    if pr.get('python_expr'):
        text = eval(pr['python_expr'], {})       # the text is generated (e.g. 2000 nested objects), the expression is part of the committed finding
    with open(src, 'w') as f:
        f.write(text)
    args = ' '.join(["'%s'" % ctx.cli, '-f', "'%s'" % src] + ['%s %s' % (FLAGS[l], os.path.join(wd, 'o_' + l)) for l in pr.get('langs', tools.LANGS)])
    cmd = 'ulimit -v %d; exec timeout -s KILL %d %s' % (int(pr.get('mem_kb', 3000000)), int(pr.get('timeout_s', 20)), args)
    p = subprocess.run(['bash', '-c', cmd], stdout=subprocess.PIPE, stderr=subprocess.STDOUT, cwd=wd)
    out = p.stdout.decode('utf-8', 'replace')
    shutil.rmtree(wd, ignore_errors=True)
    if p.returncode in (137, -9, 124):
        return ('same', 'killed by the %ss watchdog' % pr.get('timeout_s', 20))
    if 'out of memory' in out or 'cannot allocate memory' in out:
        return ('same', 'out of memory under ulimit -v %s KB' % pr.get('mem_kb', 3000000))
    cr = crashed(p.returncode, out.encode())
    if cr:
        return ('different', cr)
    return None


# ------------------------------------------------------------------------------------------------ C16

def triage16(ctx, entry, symptom, label, what, replay, feats=()):
    from . import check
    fs = {'entry:' + entry, 'label:' + label} | set(feats)
    app = [fd for fd in check.applicable(ctx.findings_db, 'C16', 'any', fs) if check.symptom_matches(fd, symptom, what)]
    if app:
        ctx.finding_excluded[app[0]['id']] += 1
        ctx.known_finding(app[0]['id'], app[0]['what'])
        return
    ctx.violation(('C16', entry, symptom), '%s via %s [%s] %s' % (symptom, entry, label, what), replay)


KEEP_NAME = 'NOTES.keep'
KEEP_DATA = b'not generated; must survive a compile into this directory\n'


def c16(ctx):
    from . import hostile, checks_format
    quick = ctx.tier == 'quick'
    ctx.cov['rule'] = ('formatter: valid texts (pool protocols in random spellings/layouts/comments) and invalid texts (truncations, token edits, garbage, byte-level) through `format -d`, '
                       '`format -f` and FormatPacketDslExport (ASan host), each compared byte for byte with the in-process library result (stdout = result + the single line terminator; '
                       'file = result; C string = result; on error: non-zero exit, file untouched, "Error:" prefix). compile: pool protocols x subsets of the six output flags x '
                       '{with, without the word compile} x output path shapes; written tree compared byte for byte with the generators\' file maps, nothing else created (directory listing '
                       '+ strace sample). distinct = (text, entry point) and (protocol, subset, spelling) pairs')
    rng = random.Random('%s/c16' % ctx.seed)
    # ---------------- formatter entry points
    texts = []
    pool = base_pool(ctx.seed, (30 if quick else 300), (4 if quick else 40), 'Ep')
    for p in pool[::(3 if quick else 1)]:
        r2 = random.Random('%s/%s/e' % (ctx.seed, p.tag))
        toks = dslprint.tokens(p, dslprint.Spelling(rng=r2, p=0.3))
        toks = dslprint.insert_comments(toks, r2, p=0.05)
        texts.append(('valid', dslprint.layout(toks, r2.choice(['pretty', 'oneline', 'random', 'tabs', 'tight']), r2)[0].encode()))
    valid_texts = [t.decode() for _, t in texts[:20]]
    for kind, x in checks_format.invalid_texts(rng, valid_texts[:(8 if quick else 60)], 6):
        texts.append(('invalid/' + kind, x.encode('utf-8', 'surrogateescape')))
    for label, b in hostile.byte_texts(ctx.seed, True, valid_texts[:1]):
        if label in ('prefix', 'byte-flip', 'byte-delete', 'chunk-swap', 'byte-insert', 'token-soup', 'random-bytes') and rng.random() > (0.15 if quick else 0.6):
            continue
        if len(b) > 90000:
            continue
        texts.append(('bytes/' + label, b))
    for label, t in hostile.shape_texts()[::(9 if quick else 2)]:
        texts.append(('shape', t.encode()))
    # texts that are ALREADY formatted, bare and wrapped in the white space files usually carry (final newline, blank lines, CRLF)
    v = ctx.vapi
    nform = 0
    for label, b in list(texts[:(12 if quick else 80)]):
        if label != 'valid':
            continue
        r = v.call({'op': 'format', 'text_b64': tools.b64(b)}, timeout=120)
        if r.get('err') or r.get('panic'):
            continue
        import base64
        f0 = base64.b64decode(r.get('out_b64', ''))
        nform += 1
        for wrap in (b'%s', b'%s\n', b'\n\n%s\n\n', b'  %s \t\n', b'%s\r\n'):
            texts.append(('formatted', wrap % f0))
    ctx.cov['already_formatted_texts'] = nform * 5
    ctx.cov['formatter_texts'] = len(texts)
    lib = []
    for label, b in texts:
        r = v.call({'op': 'format', 'text_b64': tools.b64(b)}, timeout=120)
        import base64
        lib.append((base64.b64decode(r.get('out_b64', '')), r.get('err'), r.get('panic')))
    ctx.cli

    def fmt_cli(job):
        i, label, b = job
        wd = os.path.join(ctx.scr.dir, 'c16f', 'j%d' % i)
        os.makedirs(wd, exist_ok=True)
        res = {}
        if b and b'\x00' not in b:
            logp = os.path.join(wd, 'd.out')
            with open(logp, 'wb') as lf:
                p = subprocess.run(['timeout', '-s', 'QUIT', '60', ctx.cli.encode(), b'format', b'-d', b], stdout=lf, stderr=subprocess.DEVNULL, cwd=wd, stdin=subprocess.DEVNULL)
            with open(logp, 'rb') as lf:
                res['d'] = (p.returncode, lf.read())
        src = os.path.join(wd, 'x.dsl')
        with open(src, 'wb') as f:
            f.write(b)
        st0 = os.stat(src)
        logp = os.path.join(wd, 'f.out')
        with open(logp, 'wb') as lf:
            p = subprocess.run(['timeout', '-s', 'QUIT', '60', ctx.cli, 'format', '-f', src], stdout=lf, stderr=subprocess.STDOUT, cwd=wd, stdin=subprocess.DEVNULL)
        with open(src, 'rb') as f:
            after = f.read()
        with open(logp, 'rb') as lf:
            res['f'] = (p.returncode, after, lf.read(), sorted(os.listdir(wd)))
        shutil.rmtree(wd, ignore_errors=True)
        return job, res
    jobs = [(i, l, b) for i, (l, b) in enumerate(texts)]
    with ThreadPoolExecutor(max_workers=16) as ex:
        cli_res = list(ex.map(fmt_cli, jobs))
    exp_inputs = [(str(i), b) for i, (l, b) in enumerate(texts)]
    host_res = run_chost(ctx, exp_inputs, 'c16')
    for (i, label, b), res in cli_res:
        want, err, pan = lib[i]
        rep = {'label': label, 'input_b64': tools.b64(b), 'input_preview': b[:400].decode('utf-8', 'replace'), 'library_result': want[:600].decode('utf-8', 'replace'), 'library_error': err}
        if pan:
            ctx.counters['library-panics (C11 domain)'] += 1
            continue
        lab0 = label.split('/')[0]
        if 'd' in res:
            rc, out = res['d']
            ctx.evaluated(1, key=(i, 'format -d'))
            if err is None:
                if rc != 0:
                    triage16(ctx, 'format -d', 'nonzero-exit-on-valid', lab0, 'exit %d' % rc, dict(rep, stdout=out[:500].decode('utf-8', 'replace')))
                elif out != want + b'\n':
                    triage16(ctx, 'format -d', 'stdout-differs', lab0, 'stdout is not exactly the library result + line terminator: starts %r, result starts %r' % (out[:40], want[:40]),
                             dict(rep, stdout=out[:800].decode('utf-8', 'replace')))
            else:
                if rc == 0:
                    triage16(ctx, 'format -d', 'zero-exit-on-error', lab0, 'syntax error but exit status 0', dict(rep, stdout=out[:500].decode('utf-8', 'replace')))
        rc, after, fout, listing = res['f']
        ctx.evaluated(1, key=(i, 'format -f'))
        if err is None:
            if rc != 0:
                triage16(ctx, 'format -f', 'nonzero-exit-on-valid', lab0, 'exit %d: %r' % (rc, fout[:200]), rep)
            elif after != want:
                triage16(ctx, 'format -f', 'file-differs', lab0, 'file content after format -f is not the library result: %r vs %r' % (after[:60], want[:60]), dict(rep, file_after=after[:800].decode('utf-8', 'replace')))
        else:
            if rc == 0:
                triage16(ctx, 'format -f', 'zero-exit-on-error', lab0, 'syntax error but exit status 0', rep)
            if after != b:
                triage16(ctx, 'format -f', 'file-touched-on-error', lab0, 'file changed although the text has a syntax error', dict(rep, file_after=after[:800].decode('utf-8', 'replace')))
        extra = [x for x in listing if x not in ('x.dsl', 'f.out', 'd.out')]
        if extra:
            triage16(ctx, 'format -f', 'stray-files', lab0, 'format created %s' % extra, rep)
        # export
        hr = host_res.get(str(i))
        ctx.evaluated(1, key=(i, 'export'))
        if isinstance(hr, tuple):
            ctx.counters['export-crash (C11 domain)'] += 1
        elif hr is not None:
            if b'\x00' in b:
                cut = b[:b.index(b'\x00')]
                r2 = v.call({'op': 'format', 'text_b64': tools.b64(cut)})
                import base64 as _b
                w2, e2 = _b.b64decode(r2.get('out_b64', '')), r2.get('err')
            else:
                w2, e2 = want, err
            if e2 is None and hr != w2:
                triage16(ctx, 'export', 'cstring-differs', lab0, 'FormatPacketDslExport returns %r..., library %r...' % (hr[:60], w2[:60]), dict(rep, export=hr[:800].decode('utf-8', 'replace')))
            if e2 is not None and not hr.startswith(b'Error:'):
                triage16(ctx, 'export', 'error-not-prefixed', lab0, 'syntax error but the returned string does not start with "Error:": %r' % hr[:80], rep)
    # history lane (round 7, C16l): the result of the export must not depend on the calls made before it in the same process.
    # One host process per 200 calls; the call sequence visits each sampled text twice in a row and once more after the next
    # text (t0 t0 | t1 t1 t0 | t2 t2 t1 | ...), valid and invalid texts interleaved; every call is compared with the library result.
    hsel = [i for i, (l, b) in enumerate(texts) if b and b'\x00' not in b and len(b) < 20000 and not lib[i][2]
            and not isinstance(host_res.get(str(i)), tuple)]
    hv = [i for i in hsel if lib[i][1] is None]
    hi = [i for i in hsel if lib[i][1] is not None]
    rng.shuffle(hv)
    rng.shuffle(hi)
    nh = 30 if quick else 150
    seq_txt = [x for pair in zip(hv[:nh], hi[:nh]) for x in pair]
    calls = []
    for j, i in enumerate(seq_txt):
        calls += [i, i]
        if j:
            calls.append(seq_txt[j - 1])
    hist_inputs = [('h%d_%d' % (n, i), texts[i][1]) for n, i in enumerate(calls)]
    hist_res = run_chost(ctx, hist_inputs, 'c16h') if hist_inputs else {}
    for n, i in enumerate(calls):
        hr = hist_res.get('h%d_%d' % (n, i))
        if hr is None or isinstance(hr, tuple):
            ctx.counters['export-history-call-not-judged'] += 1
            continue
        want, err, _ = lib[i]
        ctx.evaluated(1, key=(n, i, 'export-history'))
        ctx.counters['export-history-calls'] += 1
        prev = [texts[k][1][:200].decode('utf-8', 'replace') for k in calls[max(0, n - 3):n]]
        rep = {'label': texts[i][0], 'input_b64': tools.b64(texts[i][1]), 'input_preview': texts[i][1][:400].decode('utf-8', 'replace'), 'call_number_in_process': n % 200,
               'previous_calls_preview': prev, 'library_result': want[:600].decode('utf-8', 'replace'), 'library_error': err, 'export': hr[:800].decode('utf-8', 'replace')}
        if err is None and hr != want:
            triage16(ctx, 'export', 'cstring-differs-after-history', texts[i][0].split('/')[0], 'call %d of one process: FormatPacketDslExport returns %r..., library %r...' % (n % 200, hr[:60], want[:60]), rep)
        if err is not None and not hr.startswith(b'Error:'):
            triage16(ctx, 'export', 'error-not-prefixed-after-history', texts[i][0].split('/')[0],
                     'call %d of one process: syntax error but the returned string does not start with "Error:": %r' % (n % 200, hr[:80]), rep)
    host_res.update({k: x for k, x in hist_res.items() if k.startswith('__sanitizer__')})
    san = [k for k in host_res if k.startswith('__sanitizer__')]
    for k in san:
        triage16(ctx, 'export', 'sanitizer-report', 'batch', host_res[k][1][-500:], {'output': host_res[k][1]})
    ctx.sample({'entry': 'format -d / -f / export', 'input': texts[0][1][:300].decode('utf-8', 'replace'), 'library_result': lib[0][0][:300].decode('utf-8', 'replace')})
    # ---------------- compile entry points
    allsub = [[l for k, l in enumerate(tools.LANGS) if m >> k & 1] for m in range(1, 64)]
    nprot = 6 if quick else 40
    protos = [p for p in pool if p.root is not None][:nprot]
    jobs = []
    jn = 0
    for p in protos:
        text = dslprint.render(p)
        r2 = random.Random('%s/%s/s' % (ctx.seed, p.tag))
        subs = [tools.LANGS] + ([[l] for l in tools.LANGS] + r2.sample(allsub, 5) if quick else allsub)
        for sub in subs:
            for word in (False, True):
                jn += 1
                jobs.append((jn, p, text, sub, word, r2.choice(['rel', 'abs', 'nested', 'space', 'subcmd', 'dirty', 'dirty', 'srcsub'])))
    expect = {}
    for p in protos:
        text = dslprint.render(p)
        expect[p.tag] = {}
    def expected(p, text, sub):
        key = tuple(sub)
        if key not in expect[p.tag]:
            expect[p.tag][key] = v.compile(text, [l for l in tools.LANGS if l in sub], shared=True)
        return expect[p.tag][key]
    for jn_, p, text, sub, word, shape in jobs:
        expected(p, text, sub)

    def comp_cli(job):
        jn_, p, text, sub, word, shape = job
        wd = os.path.join(ctx.scr.dir, 'c16c', 'j%d' % jn_)
        os.makedirs(wd, exist_ok=True)
        src = os.path.join(wd, 'in.dsl')
        if shape == 'srcsub':
            # the protocol file lives in a sub-directory and is named by a relative path; relative output directories are still
            # relative to the working directory
            os.makedirs(os.path.join(wd, 'protos', 'v1'), exist_ok=True)
            src = os.path.join('protos', 'v1', 'in.dsl')
        with open(os.path.join(wd, src), 'w') as f:
            f.write(text)
        args = (['compile'] if word else []) + ['-f', src]
        dirs = {}
        for l in sub:
            name = {'rel': 'out_%s' % l, 'abs': os.path.join(wd, 'abs_%s' % l), 'nested': 'a/b c/%s/deep' % l, 'space': 'dir with space %s' % l,
                    'subcmd': {0: 'format', 1: 'compile', 2: 'help'}.get(sub.index(l), 'completion_%s' % l), 'dirty': 'used_%s' % l, 'srcsub': 'gen/%s' % l}[shape]
            dirs[l] = name
            args += [FLAGS[l], name]
            if shape == 'dirty':
                # the directory was used before: every file of the new file set already exists with other, LONGER content (an
                # earlier, larger revision of the protocol), next to a file of the user's that is none of the compiler's business
                er0 = expect[p.tag][tuple(sub)]
                for fi, (fn, data) in enumerate(sorted(er0['files'].get(l, {}).items())):
                    fp = os.path.join(wd, name, fn)
                    os.makedirs(os.path.dirname(fp), exist_ok=True)
                    with open(fp, 'wb') as f:
                        if fi % 2:
                            f.write(data[::-1])        # other content of exactly the SAME size
                        else:
                            f.write(b'// stale head\n' + data[::-1] + b'\n// stale tail of an earlier, longer revision\n' * 8)
                os.makedirs(os.path.join(wd, name), exist_ok=True)
                with open(os.path.join(wd, name, KEEP_NAME), 'wb') as f:
                    f.write(KEEP_DATA)
        rc, out = run_cli(ctx, args, wd)
        trees = {}
        for l, name in dirs.items():
            d = name if os.path.isabs(name) else os.path.join(wd, name)
            trees[l] = read_tree(d) if os.path.isdir(d) else None
        allfiles = []
        for dp, dn, fn in os.walk(wd):
            for f in fn:
                allfiles.append(os.path.relpath(os.path.join(dp, f), wd))
        shutil.rmtree(wd, ignore_errors=True)
        return job, rc, out, trees, allfiles, dirs
    with ThreadPoolExecutor(max_workers=16) as ex:
        comp = list(ex.map(comp_cli, jobs))
    for (jn_, p, text, sub, word, shape), rc, out, trees, allfiles, dirs in comp:
        er = expected(p, text, sub)
        ctx.evaluated(1, key=(p.tag, tuple(sub), word, shape))
        ctx.counters['compile-path-shape:' + shape] += 1
        rep = {'dsl': text, 'flags': sub, 'with_word_compile': word, 'path_shape': shape, 'exit_status': rc, 'output': out.decode('utf-8', 'replace')[-800:]}
        gen_failed = [l for l in sub if l not in er['files']]
        if gen_failed:
            # a generator reports an error: the CLI must stop with a non-zero status (what was written before is unspecified)
            if rc == 0:
                triage16(ctx, 'compile', 'zero-exit-on-generator-error', 'compile', '%s failed in the library but the CLI exits 0' % gen_failed, rep)
            continue
        if rc != 0:
            triage16(ctx, 'compile', 'nonzero-exit', 'compile', 'exit %d on a protocol the library compiles' % rc, rep)
            continue
        expected_files = set()
        for l in sub:
            want = er['files'][l]
            got = trees[l]
            name = dirs[l]
            if shape == 'dirty' and got is not None:
                got = dict(got)
                kept = got.pop(KEEP_NAME, None)
                expected_files.add(os.path.normpath(os.path.join(name, KEEP_NAME)))
                if kept != KEEP_DATA:
                    triage16(ctx, 'compile', 'foreign-file-touched', 'compile', 'a file of the user\'s in the %s output directory was %s' % (l, 'removed' if kept is None else 'rewritten'), rep)
            base = name if not os.path.isabs(name) else os.path.relpath(name, os.path.dirname(name.rstrip('/')) if False else os.path.join(ctx.scr.dir, 'c16c', 'j%d' % jn_))
            for fn in want:
                expected_files.add(os.path.normpath(os.path.join(base, fn)))
            if got is None:
                triage16(ctx, 'compile', 'tree-missing', 'compile', 'no directory written for %s' % l, rep)
                continue
            d = tree_diff(want, got)
            if d:
                triage16(ctx, 'compile', 'tree-differs', 'compile', '%s tree differs from the generator file map: %s' % (l, d[:4]), dict(rep, lang=l, diff=d))
        stray = [f for f in allfiles if os.path.normpath(f) not in expected_files and f not in ('in.dsl', 'cli.out', os.path.join('protos', 'v1', 'in.dsl'))]
        if stray:
            triage16(ctx, 'compile', 'stray-files', 'compile', 'files outside the generators\' file set: %s' % stray[:5], rep)
    ctx.cov['compile_runs'] = len(jobs)
    ctx.sample({'entry': 'compile', 'flags': jobs[1][3], 'with_word_compile': jobs[1][4], 'path_shape': jobs[1][5], 'protocol': jobs[1][1].tag})
    # strace sample: writes only under the requested directories
    ns = 0
    for (jn_, p, text, sub, word, shape) in jobs[:: max(1, len(jobs) // (6 if quick else 30))]:
        wd = os.path.join(ctx.scr.dir, 'c16s', 'j%d' % jn_)
        os.makedirs(wd, exist_ok=True)
        src = os.path.join(wd, 'in.dsl')
        with open(src, 'w') as f:
            f.write(text)
        args = (['compile'] if word else []) + ['-f', src]
        for l in sub:
            args += [FLAGS[l], os.path.join(wd, 'OUT', l)]
        log = os.path.join(wd, 'strace.log')
        subprocess.run(['strace', '-f', '-qq', '-e', 'trace=openat,open,creat,mkdir,mkdirat,rename,renameat,renameat2,unlink,unlinkat,rmdir', '-o', log, ctx.cli] + args,
                       stdout=subprocess.DEVNULL, stderr=subprocess.DEVNULL, cwd=wd)
        try:
            tr = open(log).read()
        except OSError:
            ctx.notes.append('strace unavailable')
            break
        ns += 1
        bad = []
        for line in tr.split('\n'):
            if 'ENOENT' in line and 'O_CREAT' not in line:
                continue
            m = re.search(r'"([^"]*)"', line)
            if not m:
                continue
            path = m.group(1)
            writes = ('mkdir' in line or 'O_WRONLY' in line or 'O_RDWR' in line or 'O_CREAT' in line or 'creat(' in line or 'rename' in line or 'unlink' in line or 'rmdir' in line)
            if writes and not (os.path.join(wd, 'OUT') in os.path.normpath(os.path.join(wd, path)) or path.startswith('/dev/') or path.startswith('/proc/')):
                bad.append(line[:200])
        if bad:
            triage16(ctx, 'compile', 'writes-elsewhere', 'compile', 'strace: file-system writes outside the requested directories: %s' % bad[:3], {'dsl': text, 'strace': bad[:20]})
        shutil.rmtree(wd, ignore_errors=True)
    ctx.cov['strace_observed_compiles'] = ns
    ctx.assumptions += ['`format -d ""` cannot be distinguished from an absent flag by the CLI; the empty text is only sent through -f and the export',
                        'a text with an embedded NUL reaches the C export truncated at the NUL (C string); it is compared with the library result on the truncated text']
    probes(ctx, 'C16')


CHECKS['C16'] = c16

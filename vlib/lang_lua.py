"""Lua lane (C15): run the emitted Wireshark dissector in a Lua 5.3 host over a mock Wireshark API."""
import os
import shutil

from . import lanes, tools

RT_SRC = os.path.join(tools.VERIF, 'runtimes', 'lua')
RT_DIR = os.path.join(tools.VERIF, '.cache', 'rt', 'lua')
HOST = os.path.join(RT_DIR, 'luahost')


def ensure_runtime():
    src = os.path.join(RT_SRC, 'luahost.c')
    if os.path.exists(HOST) and os.path.getmtime(HOST) >= os.path.getmtime(src):
        return
    os.makedirs(RT_DIR, exist_ok=True)
    rc, log = tools.run(['gcc', '-O1', '-I/usr/include/lua5.3', src, '-o', HOST, '-llua5.3', '-lm', '-ldl'])
    if rc != 0:
        raise tools.BuildError('luahost build failed:\n' + log)


class LuaOut:
    def __init__(self):
        self.load = None        # 'ok' or error text
        self.cases = {}         # id -> {'events': [...], 'err': str|None, 'final': str|None, 'ended': bool}
        self.done = False
        self.raw = ''
        self.rc = None
        self.fired = False


def run(item, work, cases):
    """cases: [(id, bytes)]"""
    ensure_runtime()
    out = LuaOut()
    d = os.path.join(work, 'lua', item.tag)
    os.makedirs(d, exist_ok=True)
    files = item.files.get('lua') or {}
    if not files:
        out.load = 'no lua file emitted'
        return out
    name, data = sorted(files.items())[0]
    sp = os.path.join(d, name)
    with open(sp, 'wb') as f:
        f.write(data)
    cf = os.path.join(d, 'cases.txt')
    with open(cf, 'w') as f:
        for cid, b in cases:
            f.write('%s %s\n' % (cid, b.hex() if b else '-'))
    rc, text, fired = lanes.run_child([HOST, os.path.join(RT_SRC, 'runner.lua'), sp, cf], d, os.path.join(d, 'run.log'))
    out.rc, out.raw, out.fired = rc, text, fired
    cur = None
    for line in text.split('\n'):
        if line.startswith('LOAD '):
            out.load = line[5:]
        elif line.startswith('BEGIN '):
            cur = line[6:]
            out.cases[cur] = {'events': [], 'err': None, 'final': None, 'ended': False}
        elif line.startswith('END '):
            if cur:
                out.cases[cur]['ended'] = True
            cur = None
        elif line == 'DONE':
            out.done = True
        elif cur is not None:
            if line.startswith('ERR '):
                out.cases[cur]['err'] = line.split(' ', 2)[2] if line.count(' ') >= 2 else line
            elif line.startswith('FINAL '):
                out.cases[cur]['final'] = line.split(' ', 2)[2]
            elif line:
                out.cases[cur]['events'].append(line)
    return out


def expected_events(item, i):
    """from the reference layout: ([(filter, off, len)] for leaf fields in wire order, [(off, len)] for prefixes, total length)"""
    refb, lay, dec, _ = item.ref[i]
    leaves = []
    prefixes = []
    for e in lay.items:
        if e['kind'] == 'leaf':
            filt = '%s.%s' % (item.snake(e['owner']), item.snake(e['fname']))
            leaves.append((filt, e['off'], e['len']))
        else:
            prefixes.append((e['off'], e['len']))
    return sorted(leaves, key=lambda x: (x[1], x[2])), prefixes, len(refb)

"""C09 (formatting changes layout only) and C10 (idempotent, layout-canonical)."""
import random

from . import dslparse, dslprint, dsllex, gen, tools
from .checks_meta import base_pool, tree_diff, triage, probes
from .dslprint import Comment, NL
from .spec import Field, MetaEntry, Packet, Proto

KEYWORDS = {'options', 'MetaData', 'packet', 'root', 'repeat', 'match', 'as', 'true', 'false'}
TYPES = {'u8', 'u16', 'u32', 'u64', 'i8', 'i16', 'i32', 'i64', 'f32', 'f64', 'uint8', 'uint16', 'uint32', 'uint64', 'int8', 'int16',
         'int32', 'int64', 'float32', 'float64', 'char', 'string', 'char[]', 'char[', 'zchar['}


def tokcat(t):
    if t is None:
        return '^$'
    if t in KEYWORDS:
        return t
    if t in TYPES:
        return 'TYPE'
    if t.startswith('@'):
        return 'ATTR'
    if t.startswith('`'):
        return 'DOC'
    if t.startswith('"'):
        return 'STRING'
    if t.startswith("'"):
        return 'PADCHAR'
    if t.isdigit():
        return 'DIGITS'
    if len(t) == 1 and t in '{}=()[]:,;':
        return t
    return 'IDENT'


def contexts(toks):
    """context label of the position BEFORE each token index (and one extra for end of text)."""
    ctx = []
    stack = ['top']
    pend = None
    prev = None
    for t in toks:
        ctx.append(stack[-1])
        if t in ('options', 'MetaData', 'packet', 'match'):
            pend = {'options': 'options', 'MetaData': 'metadata', 'packet': 'packet', 'match': 'match'}[t]
        if t == '{':
            stack.append(pend or 'inline')
            pend = None
        elif t == '}':
            if len(stack) > 1:
                stack.pop()
        elif t == '[':
            stack.append('list')
        elif t == ']':
            if len(stack) > 1:
                stack.pop()
        elif t == '(' or (t.startswith('@') and t.endswith('(')):
            stack.append('paren')
        elif t == ')':
            if len(stack) > 1:
                stack.pop()
        elif t in ('char[', 'zchar['):
            stack.append('typebr')
        prev = t
    ctx.append(stack[-1])
    return ctx


def boundary_class(toks, i, mode):
    real = [t for t in toks if t is not NL and not isinstance(t, Comment)]
    cx = contexts(real)
    prev = real[i - 1] if i > 0 else None
    nxt = real[i] if i < len(real) else None
    return '%s|%s|%s|%s' % (cx[i], tokcat(prev), tokcat(nxt), mode)


def coverage_protos():
    """small well-formed protocols that together use every grammar rule and optional element."""
    num = gen.num
    fix = gen.fix
    dyn = gen.dyn
    out = []
    md = [('Common', [MetaEntry('Seq', base=num('Seq', 'u32'), doc='seq no'), MetaEntry('Alt', ref='Seq', doc='alias'),
                      MetaEntry('Code', base=fix('Code', 4), doc='code:  two blanks\nand a second line')])]
    p1 = Proto([Packet('RootCa', [num('MsgType', 'u16', doc='kind  of\n      message\t100% %d'),
                                  Field('len', 'BodyLen', ntype='u32', target='Body', prefixed=False, typed=True, doc='len'),
                                  Field('meta', 'Seq', entry='Seq', named=False),
                                  Field('match', 'Body', key='MsgType', pairs=[([1], 'Logon'), ([2, 3], 'Logout'), ([4, 5, 6, 7, 8, 9, 10], 'Logon')]),
                                  Field('cksum', 'Check', ntype='u32', algo='CRC32', prefixed=True, typed=True)], root=True),
                Packet('Logon', [fix('User', 8, pad=('left', '0'), tag=11), fix('Firm', 6, pad=('right', 'nul'), tag=12, doc='two attributes'), dyn('Secret', 'char[]', doc=' pw \n'), fix('Zed', 4, zchar=True),
                                 num('Nums', 'i64', repeat=True), Field('ref', 'Detail', packet='Detail', named=False, repeat=True),
                                 Field('inline', 'Extra', fields=[num('Xa', 'u8'), dyn('Ya', doc='y'), Field('inline', 'Deep', fields=[num('Za', 'f32')])], repeat=True)]),
                Packet('Logout', [Field('meta', 'Mine', entry='Code', named=True, pad=('right', 'sp')), Field('ref', 'Info', packet='Detail', named=True)]),
                Packet('Detail', [dyn('RuleName', tag=58), num('Code', 'u16', alias=True, tag=7, doc='c')]),
                Packet('Empty', [])],
               gen.base_options('Ca', {'LittleEndian': 'true', 'StringPrefixLenType': 'u8', 'FixedStringPadChar': "'0'"}), md, tag='Ca')
    out.append(p1)
    p2 = Proto([Packet('RootCb', [dyn('Kind'), Field('match', 'Body', key='Kind', pairs=[(['A'], 'Pa'), (['B', 'C'], 'Pb'), (['K%d' % n for n in range(10)], 'Pa'), (['L%d' % n for n in range(15)], 'Pb'), (['M,%d' % n for n in range(6)], 'Pa')]),
                                  Field('cksum', 'Check', ntype='u16', algo='CRC16', prefixed=False, typed=True, doc='sum')], root=True),
                Packet('Pa', [fix('Na', 3, pad=('right', None)), fix('Nb', 3, pad=('left', 'nul'))]),
                Packet('Pb', [Field('char', 'Side'), Field('char', 'Sides', repeat=True)])],
               gen.base_options('Cb'), [], tag='Cb')
    out.append(p2)
    p3 = Proto([Packet('RootCc', [num('Only', 'u8')], root=True)], {}, [], tag='Cc')
    out.append(p3)
    return out


def with_comment(toks, i, mode, text):
    """insert one comment at boundary i (index into the real-token sequence)."""
    out = []
    k = 0
    done = False
    for t in toks:
        if t is NL or isinstance(t, Comment):
            out.append(t)
            continue
        if k == i and not done:
            out.append(Comment(text, own_line=(mode == 'own')))
            done = True
        out.append(t)
        k += 1
    if not done:
        out.append(Comment(text, own_line=(mode == 'own')))
    return out


def fmt(ctx, text):
    r = ctx.vapi.format(text)
    out = r['out'].decode('utf-8', 'surrogateescape')
    return out, r.get('err'), r.get('panic')


def judge_valid(ctx, prop, tag, feats_proto, text, toks, label, cls=None, check_compile=True):
    """C09 oracle on one syntactically valid text. returns formatted text or None."""
    y, err, pan = fmt(ctx, text)
    rep = {'input': text, 'label': label, 'class': cls}
    if pan:
        fail(ctx, prop, feats_proto, tag, cls, 'formatter-panic', 'panic at %s: %s' % (pan['site'], pan['value']), dict(rep, panic=pan))
        return None
    if err:
        fail(ctx, prop, feats_proto, tag, cls, 'valid-text-rejected', 'formatter reports an error on a valid text: %s' % err[:200], rep)
        return None
    want_tok = dsllex.essential([t for t in toks if t is not NL and not isinstance(t, Comment)])
    want_com = [t.text for t in toks if isinstance(t, Comment)]
    try:
        lx = dsllex.lex(y)
    except dsllex.LexError as e:
        fail(ctx, prop, feats_proto, tag, cls, 'output-not-lexable', str(e), dict(rep, output=y))
        return y
    got_tok, got_com = dsllex.split(lx)
    got_tok = dsllex.essential(got_tok)
    ok = True
    if got_tok != want_tok:
        i = next((k for k, (a, b) in enumerate(zip(got_tok, want_tok)) if a != b), min(len(got_tok), len(want_tok)))
        fail(ctx, prop, feats_proto, tag, cls, 'tokens-changed', 'essential token sequence differs at #%d: got %s want %s' % (i, got_tok[max(0, i - 3):i + 3], want_tok[max(0, i - 3):i + 3]), dict(rep, output=y))
        ok = False
    if got_com != want_com:
        missing = [c for c in want_com if c not in got_com]
        kind = 'comment-dropped' if missing else 'comments-reordered-or-duplicated'
        fail(ctx, prop, feats_proto, tag, cls, kind, 'comments in=%s out=%s' % (want_com[:6], got_com[:6]), dict(rep, output=y))
        ok = False
    elif ok and want_com:
        in_seq = [t.text if isinstance(t, Comment) else t for t in toks if t is not NL and (isinstance(t, Comment) or t not in dsllex.PUNCT)]
        out_seq = dsllex.words_and_comments(lx)
        if in_seq != out_seq:
            i = next((k for k, (a, b) in enumerate(zip(in_seq, out_seq)) if a != b), 0)
            fail(ctx, prop, feats_proto, tag, cls, 'comment-moved', 'comment changed position relative to the declarations: in %s out %s' % (in_seq[max(0, i - 2):i + 3], out_seq[max(0, i - 2):i + 3]), dict(rep, output=y))
            ok = False
    # the result must parse
    if check_compile:
        r0 = ctx.vapi.compile(text, tools.LANGS)
        r1 = ctx.vapi.compile(y, tools.LANGS)
        if r1.get('syn_err'):
            fail(ctx, prop, feats_proto, tag, cls, 'output-does-not-parse', r1['syn_err'][:300], dict(rep, output=y))
        elif not r0.get('syn_err'):
            if [(d['msg']) for d in r0.get('diags') or []] != [(d['msg']) for d in r1.get('diags') or []]:
                fail(ctx, prop, feats_proto, tag, cls, 'diagnostics-changed', 'diagnostics differ after formatting: %s vs %s' % (r0.get('diags'), r1.get('diags')), dict(rep, output=y))
            else:
                for l in tools.LANGS:
                    a, b = r0['files'].get(l), r1['files'].get(l)
                    if a is None or b is None:
                        if (a is None) != (b is None):
                            fail(ctx, prop, feats_proto, tag, cls, 'compile-outcome-changed', 'generator %s fails on one of original/formatted only' % l, dict(rep, output=y))
                        continue
                    d = tree_diff(a, b)
                    if d:
                        fail(ctx, prop, feats_proto, tag, cls, 'compiled-output-changed', '%s output differs after formatting: %s' % (l, d[:3]), dict(rep, output=y, lang=l))
                        break
    return y


def fail(ctx, prop, proto, tag, cls, symptom, what, replay):
    """triage against known findings by boundary class / feature atoms."""
    from . import check
    feats = set()
    if proto is not None:
        from .spec import features
        feats = features(proto)
    if cls:
        feats = set(feats) | {'cls:' + cls} | {'ctx:' + cls.split('|')[0], 'mode:' + cls.split('|')[-1]}
    feats |= set(replay.get('extra_feats', ()))
    app = [fd for fd in check.applicable(ctx.findings_db, prop, 'format', feats) if check.symptom_matches(fd, symptom, what)]
    if app:
        ctx.finding_excluded[app[0]['id']] += 1
        ctx.known_finding(app[0]['id'], app[0]['what'])
        return
    ctx.violation((prop, symptom, cls or tag), '%s [%s] %s' % (symptom, cls or tag, what), replay)


def invalid_texts(rng, base_texts, n):
    """syntactically invalid texts: truncations, deleted/duplicated tokens, garbage."""
    out = []
    for bt in base_texts:
        lx = [t for t in dsllex.lex(bt)]
        toks = [t for _, t, _ in lx]
        for _ in range(n):
            k = rng.random()
            if k < 0.3:
                cut = rng.randint(1, max(1, len(toks) - 1))
                out.append(('truncated', ' '.join(toks[:cut]).replace('// ', '\n// ') + ('\n' if rng.random() < 0.5 else '')))
            elif k < 0.5:
                i = rng.randrange(len(toks))
                out.append(('token-deleted', '\n'.join(toks[:i] + toks[i + 1:])))
            elif k < 0.7:
                i = rng.randrange(len(toks))
                out.append(('token-duplicated', '\n'.join(toks[:i + 1] + toks[i:])))
            elif k < 0.85:
                i = rng.randrange(len(toks))
                out.append(('garbage-inserted', '\n'.join(toks[:i] + [rng.choice(['%%', '$', '#x', '\\', '"unterminated', "'x'", '@nope(', '123abc', '`'])] + toks[i:])))
            else:
                out.append(('random-bytes', ''.join(chr(rng.randint(1, 126)) for _ in range(rng.randint(1, 60)))))
    return out


def matrix_cases(ctx):
    """token-boundary matrix: every boundary of the coverage protocols x {trailing, own-line}."""
    cases = []
    seen = set()
    for p in coverage_protos():
        for sp in (dslprint.Spelling(), dslprint.Spelling(drop_pair_comma=True, drop_semicolon=True, single_as_list=True)):
            toks = dslprint.tokens(p, sp)
            real = [t for t in toks if t is not NL]
            n = len(real)
            cnum = 0
            for i in range(n + 1):
                for mode in ('own', 'trail'):
                    if mode == 'trail' and i == 0:
                        continue
                    cnum += 1
                    cls = boundary_class(toks, i, mode)
                    if sp.force and cls in seen:
                        continue        # second spelling only contributes boundary classes the canonical one lacks
                    # the comment text carries things that look like other tokens: a lone back-tick, a quote, a per cent sign
                    t2 = with_comment(toks, i, mode, '// m%d%s' % (cnum, [' `tick', ' `tick "quote 100% %s', ' "quote', " it's 100% %s"][cnum % 4]))
                    cases.append((p, cls, t2))
            for _, cls, _ in cases:
                seen.add(cls)
    return cases


def c09(ctx):
    quick = ctx.tier == 'quick'
    ctx.cov['rule'] = ('texts printed from harness-owned token lists; (i) token-boundary matrix: every token boundary of 3 grammar-coverage protocols x '
                       '{own-line, trailing} comment, enumerated completely; (ii) pool protocols with random spellings, layouts and comments at random boundaries; '
                       '(iii) invalid texts (truncated, token deleted/duplicated, garbage). Oracle on format(x): parses, essential tokens and comment sequence unchanged '
                       '(independent lexer), comments keep their position relative to declarations, six compiled outputs byte-identical; invalid: x returned + error. '
                       'distinct = boundary classes + (protocol, layout) pairs')
    classes = {}
    failed_cls = set()
    # lexer self-check on every input: it must reproduce the generator's own token list
    for p, cls, toks in matrix_cases(ctx):
        text, _ = dslprint.layout(toks, 'pretty')
        if not selfcheck(ctx, text, toks):
            continue
        ctx.evaluated(1, key=('cls', cls))
        classes[cls] = classes.get(cls, 0) + 1
        before = (sum(v['count'] for v in ctx.violations), sum(ctx.finding_excluded.values()))
        judge_valid(ctx, 'C09', p.tag, p, text, toks, 'boundary-matrix', cls, check_compile=True)
        if (sum(v['count'] for v in ctx.violations), sum(ctx.finding_excluded.values())) != before:
            failed_cls.add(cls)
    ctx.cov['boundary_classes'] = len(classes)
    ctx.cov['boundary_cases'] = sum(classes.values())
    ctx.cov['exhaustive'] = False
    ctx.cov['exhaustive_in'] = 'token boundaries x comment mode of the 3 grammar-coverage protocols'
    # pool
    nrand, nrich, nvar = (40, 6, 3) if quick else (300, 40, 8)
    pool = base_pool(ctx.seed, nrand, nrich, 'Fm')
    valid_texts = []
    for p in pool:
        rng = random.Random('%s/%s/f' % (ctx.seed, p.tag))
        for v in range(nvar):
            sp = dslprint.Spelling(rng=rng, p=0.4) if v else dslprint.Spelling()
            toks = dslprint.tokens(p, sp)
            style = rng.choice(['pretty', 'oneline', 'tokenperline', 'tight', 'random', 'tabs'])
            text, _ = dslprint.layout(toks, style, rng)
            if not selfcheck(ctx, text, toks):
                continue
            ctx.evaluated(1, key=(p.tag, style, v))
            y = judge_valid(ctx, 'C09', p.tag, p, text, toks, 'pool/%s' % style, None, check_compile=(v < 2))
            if v == 0:
                valid_texts.append(text)
            if len(ctx.cov['samples']) < 3 and v == 1 and y:
                ctx.sample({'layout': style, 'input': text[:600], 'formatted': y[:600]})
    # random comments over pool protocols, only at boundary classes not covered by an open finding (clean lane)
    bad_cls = known_bad_classes(ctx, 'C09')
    ncom = 0
    for p in pool[:(60 if quick else 400)]:
        rng = random.Random('%s/%s/c' % (ctx.seed, p.tag))
        toks = dslprint.tokens(p)
        real = [t for t in toks if t is not NL]
        picks = []
        for _ in range(4):
            i = rng.randint(0, len(real))
            mode = rng.choice(['own', 'trail']) if i > 0 else 'own'
            cls = boundary_class(toks, i, mode)
            if cls not in classes or cls in failed_cls or cls in bad_cls:
                continue        # clean lane: only boundary classes the matrix of THIS run judged and found intact
            picks.append((i, mode, cls))
        picks = sorted(set(picks))
        if not picks:
            continue
        t2 = toks
        for n, (i, mode, cls) in enumerate(reversed(picks)):
            # every third text repeats ONE comment text at all its positions (separator lines, repeated TODOs)
            t2 = with_comment(t2, i, mode, '// ---- section ----' if len(picks) % 3 == 0 else '// r%d' % (len(picks) - n))
        text, _ = dslprint.layout(t2, rng.choice(['pretty', 'tabs']), rng)
        if not selfcheck(ctx, text, t2):
            continue
        ncom += 1
        ctx.evaluated(1, key=(p.tag, 'comments', tuple(c for _, _, c in picks)))
        judge_valid(ctx, 'C09', p.tag, p, text, t2, 'pool/comments', None, check_compile=False)
    ctx.cov['pool_texts_with_comments'] = ncom
    # invalid texts
    rng = random.Random('%s/inv' % ctx.seed)
    inv = invalid_texts(rng, valid_texts[:(30 if quick else 200)], 10)
    ninv = 0
    for kind, x in inv:
        y, err, pan = fmt(ctx, x)
        if pan:
            fail(ctx, 'C09', None, 'invalid', None, 'formatter-panic', 'panic at %s on a %s text: %s' % (pan['site'], kind, pan['value']), {'input': x, 'kind': kind, 'panic': pan, 'extra_feats': ['invalid:' + kind]})
            continue
        # validity is decided by the independent recognizer (dslparse, written from the grammar), never by the code under
        # test; a text with a character no token rule matches is invalid as well
        try:
            is_valid = dslparse.valid(x)
        except dslparse.Undecided:
            is_valid = False
        if is_valid:
            # the mutation happens to be a sentence of the grammar: it must be accepted
            ctx.counters['mutation-still-valid'] += 1
            ctx.evaluated(1, key=('mutated-valid', kind, len(x) % 50))
            if err is not None:
                fail(ctx, 'C09', None, 'invalid', None, 'valid-text-rejected', 'kind=%s: %s' % (kind, str(err)[:200]), {'input': x, 'error': str(err), 'extra_feats': ['invalid:' + kind]})
            continue
        ninv += 1
        ctx.evaluated(1, key=('invalid', kind, len(x) % 50))
        if err is None:
            fail(ctx, 'C09', None, 'invalid', None, 'syntax-error-not-reported', 'kind=%s: the text is not a sentence of the grammar, format reports no error and returns %d of %d characters' % (kind, len(y or ''), len(x)),
                 {'input': x, 'output': y, 'extra_feats': ['invalid:' + kind]})
            continue
        if y != x:
            fail(ctx, 'C09', None, 'invalid', None, 'invalid-input-not-returned-unchanged', 'kind=%s' % kind, {'input': x, 'output': y, 'extra_feats': ['invalid:' + kind]})
    ctx.cov['invalid_texts'] = ninv
    file_mode_lane(ctx, valid_texts, [x for _, x in inv], quick)
    probes(ctx, 'C09')


def file_mode_lane(ctx, valid_texts, invalid, quick):
    """C09 in file mode (`format -f`, the real CLI, one process per file): after formatting a valid file, the FILE holds the author's essential
    tokens in order and still parses; a file that is not a sentence of the grammar is left byte-identical and the exit status is non-zero.
    The valid files are written in loose layouts (deep indentation, blank lines, CRLF, trailing blanks) so that the formatted text is
    shorter than the file it replaces (round 7, C09l: a rewrite that does not truncate leaves the old tail behind)."""
    import os
    import subprocess
    from concurrent.futures import ThreadPoolExecutor
    cli = ctx.cli
    rng = random.Random('%s/c09-file' % ctx.seed)
    jobs = []
    for k, text in enumerate(valid_texts[:(24 if quick else 160)]):
        style = ('indent', 'blank', 'crlf', 'trail')[k % 4]
        lines = text.split('\n')
        if style == 'indent':
            loose = '\n'.join((' ' * 24 + l) if l.strip() else l for l in lines) + '\n\n\n'
        elif style == 'blank':
            loose = '\n\n\n'.join(lines) + '\n'
        elif style == 'crlf':
            loose = '\r\n'.join(l + '   ' for l in lines) + '\r\n\r\n'
        else:
            loose = '\n'.join(l + ' \t ' * 6 for l in lines) + '\n' * 20
        jobs.append(('valid', k, loose))
    for k, x in enumerate(invalid[:(24 if quick else 160)]):
        try:
            if dslparse.valid(x):
                continue
        except dslparse.Undecided:
            pass
        if '\x00' in x:
            continue
        jobs.append(('invalid', k, x))

    def run(job):
        kind, k, text = job
        wd = os.path.join(ctx.scr.dir, 'c09f', '%s%d' % (kind, k))
        os.makedirs(wd, exist_ok=True)
        src = os.path.join(wd, 'x.dsl')
        data = text.encode('utf-8', 'surrogateescape')
        with open(src, 'wb') as f:
            f.write(data)
        with open(os.path.join(wd, 'log'), 'wb') as lf:
            p = subprocess.run(['timeout', '-s', 'QUIT', '60', cli, 'format', '-f', src], stdout=lf, stderr=subprocess.STDOUT, cwd=wd, stdin=subprocess.DEVNULL)
        with open(src, 'rb') as f:
            after = f.read()
        return job, data, p.returncode, after
    with ThreadPoolExecutor(max_workers=16) as ex:
        results = list(ex.map(run, jobs))
    nshrunk = 0
    for (kind, k, text), data, rc, after in results:
        rep = {'input': text, 'mode': 'format -f', 'exit': rc, 'file_after': after[:3000].decode('utf-8', 'replace')}
        if rc in (124, 131, 137):
            ctx.counters['file-mode-timeout (C11 domain)'] += 1
            continue
        ctx.evaluated(1, key=('file-mode', kind, k))
        if kind == 'invalid':
            if after != data:
                fail(ctx, 'C09', None, 'file-mode', None, 'file-changed-on-syntax-error', 'format -f rewrote a file that is not a sentence of the grammar (%d -> %d bytes)' % (len(data), len(after)), rep)
            if rc == 0:
                fail(ctx, 'C09', None, 'file-mode', None, 'file-mode-error-not-reported', 'format -f exits 0 on a file that is not a sentence of the grammar', rep)
            continue
        if rc != 0:
            fail(ctx, 'C09', None, 'file-mode', None, 'valid-file-rejected', 'format -f exits %d on a valid file' % rc, rep)
            continue
        if len(after) < len(data):
            nshrunk += 1
        y = after.decode('utf-8', 'surrogateescape')
        try:
            want_tok = dsllex.essential(dsllex.split(dsllex.lex(text))[0])
        except dsllex.LexError:
            ctx.counters['file-mode-input-not-lexable-by-the-harness'] += 1
            continue
        try:
            got_tok = dsllex.essential(dsllex.split(dsllex.lex(y))[0])
        except dsllex.LexError as e:
            fail(ctx, 'C09', None, 'file-mode', None, 'file-not-lexable-after-format', str(e), rep)
            continue
        if got_tok != want_tok:
            i = next((n for n, (a, b) in enumerate(zip(got_tok, want_tok)) if a != b), min(len(got_tok), len(want_tok)))
            fail(ctx, 'C09', None, 'file-mode', None, 'file-tokens-changed', 'after format -f the file\'s essential token sequence differs at #%d of %d (file has %d): got %s want %s' % (
                i, len(want_tok), len(got_tok), got_tok[max(0, i - 3):i + 3], want_tok[max(0, i - 3):i + 3]), rep)
            continue
        r1 = ctx.vapi.compile(y, [])
        if r1.get('syn_err'):
            fail(ctx, 'C09', None, 'file-mode', None, 'file-does-not-parse-after-format', r1['syn_err'][:300], rep)
    ctx.cov['file_mode_files'] = len(results)
    ctx.cov['file_mode_valid_files_that_shrank'] = nshrunk
    if results and not nshrunk:
        ctx.inconc('file-mode lane: no formatted file came out shorter than its input (the lane cannot see a rewrite that does not truncate)')


def selfcheck(ctx, text, toks):
    """the independent lexer must reproduce the generator's token list on the input, else the case is not judged."""
    try:
        lx = dsllex.lex(text)
    except dsllex.LexError as e:
        ctx.inconc('lexer self-check failed: %s' % e)
        return False
    a = [t for _, t, _ in lx]
    b = [t.text if isinstance(t, Comment) else t for t in toks if t is not NL]
    if a != b:
        ctx.inconc('lexer self-check mismatch (harness fault): %s vs %s' % (a[:8], b[:8]))
        return False
    return True


def known_bad_classes(ctx, prop):
    out = set()
    for fd in ctx.findings_db:
        if fd.get('status') == 'open' and prop in fd.get('properties', []):
            for conj in fd.get('when') or []:
                for a in conj:
                    if a.startswith('cls:'):
                        out.add(a[4:])
    return out


def class_excluded(ctx, prop, cls):
    from . import check
    feats = {'cls:' + cls, 'ctx:' + cls.split('|')[0], 'mode:' + cls.split('|')[-1]}
    for fd in ctx.findings_db:
        if fd.get('status') != 'open' or prop not in fd.get('properties', []):
            continue
        for conj in fd.get('when') or []:
            if all(a in feats for a in conj if a.startswith(('cls:', 'ctx:', 'mode:'))) and any(a.startswith(('cls:', 'ctx:', 'mode:')) for a in conj):
                return True
    return False


# ------------------------------------------------------------------------------------------------ C10

RELAYOUTS = ['oneline', 'tokenperline', 'tight', 'tabs', 'random', 'random', 'crlf', 'random']


def c10_judge(ctx, p, cls, toks, allcls, quick, nrel):
    """idempotence + layout-canonicity oracle on one valid text; returns True if nothing was reported."""
    xf = ['cls:' + c for c in allcls if c]
    before = (sum(v['count'] for v in ctx.violations), sum(ctx.finding_excluded.values()))
    text, _ = dslprint.layout(toks, 'pretty')
    y1, err, pan = fmt(ctx, text)
    if pan or err:
        ctx.counters['format-failed (C09/C11 domain)'] += 1
        return True
    y2, err2, pan2 = fmt(ctx, y1)
    ctx.evaluated(1, key=(p.tag, cls, 'idem'), nontrivial=(y1 != text))
    if pan2 or err2:
        fail(ctx, 'C10', p, p.tag, cls, 'second-pass-fails', 'format(format(x)) fails: %s %s' % (err2, pan2 and pan2['site']), {'input': text, 'first': y1, 'extra_feats': xf})
        return False
    if y2 != y1:
        fail(ctx, 'C10', p, p.tag, cls, 'not-idempotent', 'format(format(x)) != format(x): %s' % diff_line(y1, y2), {'input': text, 'first': y1, 'second': y2, 'extra_feats': xf})
        return False
    y3, _, _ = fmt(ctx, y2)
    if y3 != y2:
        fail(ctx, 'C10', p, p.tag, cls, 'not-idempotent', 'third pass differs', {'input': text, 'second': y2, 'third': y3, 'extra_feats': xf})
    rng = random.Random('%s/%s/%s/rl' % (ctx.seed, p.tag, cls))
    styles = RELAYOUTS[:nrel] if quick else RELAYOUTS + ['random'] * (nrel - len(RELAYOUTS))
    if cls is not None and quick:
        styles = styles[:3] + [rng.choice(styles[3:])]
    for st in styles:
        eol = '\n'
        s2 = st
        if st == 'crlf':
            eol, s2 = '\r\n', 'pretty'
        t, _ = dslprint.layout(toks, s2, rng, eol=eol)
        if t == text:
            continue
        z, e3, p3 = fmt(ctx, t)
        ctx.evaluated(1, key=(p.tag, cls, st, hash(t) % 1000))
        if e3 or p3:
            fail(ctx, 'C10', p, p.tag, cls, 'relayout-rejected', 'relayout %s is rejected/panics (%s %s) while the pretty layout formats' % (st, e3 and e3[:100], p3 and p3['site']), {'input': text, 'relayout': t, 'extra_feats': ['relayout:' + st] + xf})
            continue
        if z != y1:
            fail(ctx, 'C10', p, p.tag, cls, 'layout-dependent', 'format(relayout %s) != format(x): %s' % (st, diff_line(y1, z)), {'input': text, 'relayout': t, 'formatted_input': y1, 'formatted_relayout': z, 'extra_feats': ['relayout:' + st] + xf})
    if len(ctx.cov['samples']) < 3 and cls is None:
        ctx.sample({'input': text[:500], 'formatted': y1[:500]})
    return (sum(v['count'] for v in ctx.violations), sum(ctx.finding_excluded.values())) == before


def c10(ctx):
    quick = ctx.tier == 'quick'
    ctx.cov['rule'] = ('valid texts (boundary matrix + pool protocols with comments at boundary classes the matrix of this run found stable); oracle: format(format(x)) == format(x) '
                       '(also a third pass), and format(relayout(x)) == format(x) for relayouts that change only spaces/tabs/blank lines/line breaks and keep every comment on the '
                       'line of the same token (one-line, token-per-line, tight, tabs, CRLF, random); distinct = (text, relayout) pairs with a differing input text')
    nrel = 8 if quick else 30
    judged = set()
    failed = set()
    for p, cls, toks in matrix_cases(ctx):
        judged.add(cls)
        if not c10_judge(ctx, p, cls, toks, [cls], quick, nrel):
            failed.add(cls)
    ctx.cov['boundary_classes'] = len(judged)
    allowed = judged - failed - known_bad_classes(ctx, 'C10') - known_bad_classes(ctx, 'C09')
    ctx.cov['clean_lane_boundary_classes'] = len(allowed)
    nrand, nrich = (40, 6) if quick else (300, 40)
    pool = base_pool(ctx.seed, nrand, nrich, 'Fm')
    for p in pool:
        rng = random.Random('%s/%s/i' % (ctx.seed, p.tag))
        sp = dslprint.Spelling(rng=rng, p=0.3)
        toks = dslprint.tokens(p, sp)
        real = [t for t in toks if t is not NL]
        picks = set()
        pcls = []
        for _ in range(4):
            i = rng.randint(0, len(real))
            mode = rng.choice(['own', 'trail']) if i > 0 else 'own'
            cls = boundary_class(toks, i, mode)
            if cls not in allowed:
                continue
            picks.add((i, mode))
            pcls.append(cls)
        t2 = toks
        for n, (i, mode) in enumerate(sorted(picks, reverse=True)):
            t2 = with_comment(t2, i, mode, '// k%d' % n)
        c10_judge(ctx, p, None, t2, pcls, quick, nrel)
    probes(ctx, 'C10')


def diff_line(a, b):
    la, lb = a.split('\n'), b.split('\n')
    for i, (x, y) in enumerate(zip(la, lb)):
        if x != y:
            return 'line %d: %r vs %r' % (i + 1, x[:120], y[:120])
    return 'line count %d vs %d' % (len(la), len(lb))


CHECKS = {'C09': c09, 'C10': c10}

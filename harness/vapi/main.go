// vapi: JSON-lines server exposing fin-protoc's verifapi hooks to the Python harness.
// Requests on stdin, one JSON object per line; responses on the original stdout.
// fd 1 is redirected to /dev/null so fin-protoc's own Println noise cannot corrupt the protocol.
package main

import (
	"bufio"
	"crypto/sha256"
	"encoding/base64"
	"encoding/hex"
	"encoding/json"
	"fmt"
	"os"
	"regexp"
	"runtime/debug"
	"sort"
	"strings"
	"syscall"

	"github.com/iancoleman/strcase"
	"github.com/xinchentechnote/fin-protoc/verifapi"
)

type req struct {
	Op     string   `json:"op"`
	Text   string   `json:"text"`
	TextB  string   `json:"text_b64"`
	Langs  []string `json:"langs"`
	Shared bool     `json:"shared"`
	Reps   int      `json:"reps"`
	N      int      `json:"n"`
	Ids    []string `json:"ids"`
	Orders [][]string `json:"orders"`
	Snap   bool     `json:"snap"`
}

type panicOut struct {
	Value string `json:"value"`
	Stack string `json:"stack"`
	Site  string `json:"site"`
}

var frameRe = regexp.MustCompile(`(?m)^github\.com/xinchentechnote/fin-protoc/internal/([^\n]+?)\([^\n]*\)\n\t[^\n]*/internal/([a-z]+/[a-z_]+\.go):(\d+)`)

func mkPanic(p *verifapi.PanicInfo) *panicOut {
	if p == nil {
		return nil
	}
	site := "?"
	if m := frameRe.FindStringSubmatch(p.Stack); m != nil {
		fn := m[1]
		if i := strings.LastIndex(fn, "/"); i >= 0 {
			fn = fn[i+1:]
		}
		fn = strings.NewReplacer("(*", "", ")", "").Replace(fn)
		site = m[2] + ":" + fn
	}
	st := p.Stack
	if len(st) > 6000 {
		st = st[:6000]
	}
	return &panicOut{Value: p.Value, Stack: st, Site: site}
}

type diag struct {
	Line int    `json:"line"`
	Col  int    `json:"col"`
	Msg  string `json:"msg"`
}

func b64files(f map[string][]byte) map[string]string {
	if f == nil {
		return nil
	}
	o := map[string]string{}
	for k, v := range f {
		o[k] = base64.StdEncoding.EncodeToString(v)
	}
	return o
}

func digest(f map[string][]byte) string {
	keys := make([]string, 0, len(f))
	for k := range f {
		keys = append(keys, k)
	}
	sort.Strings(keys)
	h := sha256.New()
	for _, k := range keys {
		fmt.Fprintf(h, "%d:%s:%d:", len(k), k, len(f[k]))
		h.Write(f[k])
	}
	return hex.EncodeToString(h.Sum(nil))
}

func diffFiles(a, b map[string][]byte) []string {
	var out []string
	for k, v := range a {
		w, ok := b[k]
		if !ok {
			out = append(out, "-"+k)
		} else if string(v) != string(w) {
			out = append(out, "~"+k)
		}
	}
	for k := range b {
		if _, ok := a[k]; !ok {
			out = append(out, "+"+k)
		}
	}
	sort.Strings(out)
	return out
}

func text(r *req) string {
	if r.TextB != "" {
		b, _ := base64.StdEncoding.DecodeString(r.TextB)
		return string(b)
	}
	return r.Text
}

func doCompile(r *req) map[string]interface{} {
	res := map[string]interface{}{}
	src := text(r)
	langs := r.Langs
	var shared *verifapi.Handle
	files := map[string]interface{}{}
	errs := map[string]string{}
	panics := map[string]*panicOut{}
	first := true
	for i := 0; first || i < len(langs); i++ {
		var h *verifapi.Handle
		if first || !r.Shared {
			hh, diags, synErr, p := verifapi.Parse(src)
			if first {
				ds := []diag{}
				for _, d := range diags {
					ds = append(ds, diag{d.Line, d.Column, d.Msg})
				}
				res["diags"] = ds
				res["syn_err"] = synErr
				if p != nil {
					panics["parse"] = mkPanic(p)
				}
				res["parsed"] = hh != nil
			}
			if hh == nil {
				break
			}
			if first && len(diags) > 0 {
				// the CLI refuses to generate when the model carries diagnostics; mirror it
				break
			}
			h = hh
			shared = hh
		}
		if r.Shared {
			h = shared
		}
		first = false
		if i >= len(langs) {
			break
		}
		l := langs[i]
		f, err, p := h.Generate(l)
		if p != nil {
			panics[l] = mkPanic(p)
			continue
		}
		if err != nil {
			errs[l] = err.Error()
			continue
		}
		files[l] = b64files(f)
	}
	res["files"] = files
	res["errors"] = errs
	res["panics"] = panics
	return res
}

func doFormat(r *req) map[string]interface{} {
	out, err, p := verifapi.Format(text(r))
	res := map[string]interface{}{"out_b64": base64.StdEncoding.EncodeToString([]byte(out))}
	if err != nil {
		res["err"] = err.Error()
	}
	if p != nil {
		res["panic"] = mkPanic(p)
	}
	return res
}

// alone outputs: each language on its own fresh parse.
func alone(src string, langs []string) (map[string]map[string][]byte, map[string]string) {
	out := map[string]map[string][]byte{}
	bad := map[string]string{}
	for _, l := range langs {
		h, _, synErr, p := verifapi.Parse(src)
		if h == nil {
			bad[l] = "parse: " + synErr
			if p != nil {
				bad[l] = "parse panic: " + p.Value
			}
			continue
		}
		f, err, p := h.Generate(l)
		if p != nil {
			bad[l] = "panic: " + mkPanic(p).Site + " " + p.Value
			continue
		}
		if err != nil {
			bad[l] = "error: " + err.Error()
			continue
		}
		out[l] = f
	}
	return out, bad
}

// doOrders: for each order (sequence of languages) run the generators over ONE parsed model and compare
// every output with the stand-alone output; optionally snapshot the model before/after each generator.
func doOrders(r *req) map[string]interface{} {
	src := text(r)
	all := map[string]bool{}
	for _, o := range r.Orders {
		for _, l := range o {
			all[l] = true
		}
	}
	var langs []string
	for l := range all {
		langs = append(langs, l)
	}
	sort.Strings(langs)
	ref, bad := alone(src, langs)
	type disc struct {
		Order []string `json:"order"`
		Lang  string   `json:"lang"`
		Kind  string   `json:"kind"`
		Diff  []string `json:"diff"`
		Detail string  `json:"detail"`
	}
	var discs []disc
	gens := 0
	snaps := 0
	for _, o := range r.Orders {
		h, _, _, _ := verifapi.Parse(src)
		if h == nil {
			break
		}
		var before string
		if r.Snap {
			before = h.Snapshot()
		}
		for _, l := range o {
			if _, isBad := bad[l]; isBad {
				// the generator refuses this model when it runs alone: it must refuse it after the others too
				f, err, p := h.Generate(l)
				gens++
				if p == nil && err == nil {
					discs = append(discs, disc{Order: o, Lang: l, Kind: "succeeds-only-in-sequence", Detail: fmt.Sprintf("%d files although the generator alone reports: %s", len(f), bad[l])})
				}
				if r.Snap {
					after := h.Snapshot()
					snaps++
					if after != before {
						discs = append(discs, disc{Order: o, Lang: l, Kind: "model-mutated", Detail: firstDiff(before, after)})
						before = after
					}
				}
				continue
			}
			f, err, p := h.Generate(l)
			gens++
			if p != nil || err != nil {
				d := ""
				if p != nil {
					d = "panic " + mkPanic(p).Site + ": " + p.Value
				} else {
					d = err.Error()
				}
				discs = append(discs, disc{Order: o, Lang: l, Kind: "fail-in-sequence", Detail: d})
				continue
			}
			if df := diffFiles(ref[l], f); len(df) > 0 {
				discs = append(discs, disc{Order: o, Lang: l, Kind: "output-differs", Diff: df})
			}
			if r.Snap {
				after := h.Snapshot()
				snaps++
				if after != before {
					discs = append(discs, disc{Order: o, Lang: l, Kind: "model-mutated", Detail: firstDiff(before, after)})
					before = after
				}
			}
			if len(discs) > 50 {
				break
			}
		}
		if len(discs) > 50 {
			break
		}
	}
	dg := map[string]string{}
	for l, f := range ref {
		dg[l] = digest(f)
	}
	return map[string]interface{}{"discrepancies": discs, "alone_bad": bad, "generates": gens, "snapshots": snaps, "alone_digest": dg}
}

func firstDiff(a, b string) string {
	n := len(a)
	if len(b) < n {
		n = len(b)
	}
	i := 0
	for i < n && a[i] == b[i] {
		i++
	}
	lo := i - 160
	if lo < 0 {
		lo = 0
	}
	ha, hb := i+80, i+80
	if ha > len(a) {
		ha = len(a)
	}
	if hb > len(b) {
		hb = len(b)
	}
	return fmt.Sprintf("at %d: before=%q after=%q", i, a[lo:ha], b[lo:hb])
}

// doRepeat: compile the same text Reps times (fresh parse each) and report distinct outputs per language.
func doRepeat(r *req) map[string]interface{} {
	src := text(r)
	distinct := map[string]map[string]bool{}
	diffs := map[string][]string{}
	first := map[string]map[string][]byte{}
	bad := map[string]string{}
	for i := 0; i < r.Reps; i++ {
		out, b := alone(src, r.Langs)
		for l, m := range b {
			bad[l] = m
		}
		for l, f := range out {
			if distinct[l] == nil {
				distinct[l] = map[string]bool{}
				first[l] = f
			}
			d := digest(f)
			if !distinct[l][d] {
				distinct[l][d] = true
				if len(distinct[l]) > 1 && len(diffs[l]) < 10 {
					diffs[l] = append(diffs[l], diffFiles(first[l], f)...)
				}
			}
		}
	}
	cnt := map[string]int{}
	dg := map[string]string{}
	for l, s := range distinct {
		cnt[l] = len(s)
		dg[l] = digest(first[l])
	}
	return map[string]interface{}{"distinct": cnt, "diffs": diffs, "bad": bad, "first_digest": dg}
}

func main() {
	// runaway recursion in fin-protoc should die quickly (and without a 1 GB stack): 256 MB is far beyond any legitimate depth
	debug.SetMaxStack(256 << 20)
	saved, err := syscall.Dup(1)
	if err != nil {
		panic(err)
	}
	devnull, _ := os.OpenFile("/dev/null", os.O_WRONLY, 0)
	syscall.Dup2(int(devnull.Fd()), 1)
	out := bufio.NewWriterSize(os.NewFile(uintptr(saved), "out"), 1<<20)
	in := bufio.NewReaderSize(os.Stdin, 1<<20)
	for {
		line, err := in.ReadBytes('\n')
		if len(line) > 0 {
			var r req
			var res map[string]interface{}
			if e := json.Unmarshal(line, &r); e != nil {
				res = map[string]interface{}{"fatal": "bad request: " + e.Error()}
			} else {
				switch r.Op {
				case "compile":
					res = doCompile(&r)
				case "format":
					res = doFormat(&r)
				case "orders":
					res = doOrders(&r)
				case "repeat":
					res = doRepeat(&r)
				case "names":
					m := map[string][3]string{}
					for _, id := range r.Ids {
						m[id] = [3]string{strcase.ToSnake(id), strcase.ToCamel(id), strcase.ToLowerCamel(id)}
					}
					res = map[string]interface{}{"names": m}
				case "canary":
					seen := map[string]bool{}
					for i := 0; i < r.Reps; i++ {
						seen[verifapi.MapOrderCanary(r.N)] = true
					}
					res = map[string]interface{}{"distinct_orders": len(seen)}
				case "ping":
					res = map[string]interface{}{"pong": true, "languages": verifapi.Languages}
				default:
					res = map[string]interface{}{"fatal": "unknown op"}
				}
			}
			b, _ := json.Marshal(res)
			out.Write(b)
			out.WriteByte('\n')
			out.Flush()
		}
		if err != nil {
			return
		}
	}
}

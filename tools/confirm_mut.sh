#!/bin/bash
# usage: confirm_mut.sh <worktree>  — confirms: builds, suite passes, demo fails with the change and passes without it
d="$1"; cd "$d" || exit 2
export GOFLAGS=-mod=mod GOPROXY=off
git diff -- . ':(exclude)DEMO' > /tmp/confirm_$(basename $d).patch
demo=$(ls DEMO/demo.sh DEMO/run.sh 2>/dev/null | head -1)
b=$(go build ./... >/dev/null 2>&1 && echo ok || echo FAIL)
t=$(go test -vet=off -count=1 ./... >/dev/null 2>&1 && echo ok || echo FAIL)
bash "$demo" >/tmp/confirm_$(basename $d).mut.log 2>&1; m=$?
git apply -R /tmp/confirm_$(basename $d).patch
bash "$demo" >/tmp/confirm_$(basename $d).orig.log 2>&1; o=$?
git apply /tmp/confirm_$(basename $d).patch
echo "$(basename $d) build=$b tests=$t demo_on_mutated=$m demo_on_original=$o"

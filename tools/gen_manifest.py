"""writes MANIFEST.json"""
import json, os, subprocess
ROOT = os.path.dirname(os.path.dirname(os.path.abspath(__file__)))
hook = subprocess.run(['git', '-C', '/repo', 'log', '--format=%h', '--grep', '^verif'], stdout=subprocess.PIPE).stdout.decode().split()
TB = ('trusted base: the stand-in codec runtimes under /verif/runtimes (API surface of the emitted code with the obvious meaning of each name; real bytes/byteorder crates, real testify, '
      'stdlib unittest; Netty ByteBuf, JUnit4, gtest, Wireshark Lua API are minimal stand-ins), the harness-owned reference wire model, the target tool-chains installed in the image')
C = {
 'C01': ('exploration', 'reference-model monitor over executed emitted encoders (5 languages, C++ under ASan+UBSan)', '4/C01',
         'Runs the emitted encoders of all five codec languages on boundary-value messages for a fixed feature-matrix + random protocol pool and compares bytes with an independent reference encoder. Decides only executed (protocol, message, language) cells; universality over programs is sampled.', TB),
 'C02': ('exploration', 'reference-model monitor over executed emitted decoders: value, consumption, re-encode', '4/C02',
         'Feeds reference bytes + suffixes to the emitted decoders and checks decoded value, reader position and re-encoding. Sampled over the protocol pool and message shapes.', TB),
 'C03': ('exploration', 'relational monitor: pairwise byte equality of five encoders + cross-decoding matrix, no reference model', '4/C03',
         'Purely relational over executions of the five emitted codecs: all encoders must agree byte for byte and every decoder must recover the message from every producer. Independent of the reference model.', TB),
 'C04': ('exploration', 'reference-model monitor on length-of fields with deliberately wrong caller values + back-patch trace', '4/C04',
         'Dedicated pool: every unsigned width x spelling x target kind x byte order x payload alternative/size; the length bytes at the reference offset must equal the target size.', TB),
 'C05': ('exploration', 'dynamic-type monitor on decoded match payloads; unmapped keys must yield a reported error', '4/C05',
         'Every key of every table is sent once per language and the dynamic type of the decoded payload compared with the table; >= 3 keys outside the table must produce error/None/exception (a crash, a value or a skip is a violation).', TB),
 'C06': ('exploration', 'invariant at a hook: the checksum stand-in records the exact bytes it is handed; reference-model check of the field bytes', '4/C06',
         'The checksum service stand-ins capture their input; it must equal the message prefix; field bytes must equal algo(prefix) in width/order; unregistered algorithms leave the caller value.', TB),
 'C07': ('exploration', 'target tool-chains as oracles on emitted files (go build, rustc, javac, py_compile+import, clang++ -fsyntax-only, luaL_loadfile+run) + member/marker scan', '4/C07',
         'Every emitted file of every pool protocol (plus identifier-shape and option-omitted lanes) is handed to its tool-chain; drivers naming every declared type/member are built; placeholder markers are scanned.', TB),
 'C08': ('exploration', 'metamorphic monitor: byte equality of six file maps across meaning-preserving rewrites', '4/C08',
         'Canonical print vs. 15 rewrite sets (aliases, string/char[], zchar vs NUL pad, explicit defaults, attribute placement, key lists, MetaData inlining, separators, docs, comments, layout) at all/random/single-kind sites.', 'trusted base: the harness printer produces texts that mean the same (each rewrite is one of the equivalences the property lists)'),
 'C09': ('exploration', 'token/comment-sequence monitor with an independent lexer + compile equality; exhaustive token-boundary comment matrix; file-mode monitor over `format -f` runs of the real CLI (loose valid files, invalid files)', '4/C09',
         'Texts are printed from harness-owned token lists; the formatter output is re-lexed by an independent lexer and compared; comment-boundary matrix over 3 grammar-coverage protocols is enumerated completely; invalid texts must come back unchanged with an error.', 'trusted base: independent lexer written from PacketDsl.g4 (self-checked against the generator token list on every input)'),
 'C10': ('exploration', 'relational monitor: format∘format = format; format∘relayout = format', '4/C10',
         'String equality over boundary-matrix texts and pool texts x 8 (quick) / 30 (thorough) relayouts that keep comments on their token\'s line.', 'trusted base: relayout only changes spaces/tabs/line breaks (harness layout engine)'),
 'C11': ('exploration', 'crash monitor: recover()+stack in-process, child exit status/stderr for CLI, ASan+UBSan+LSan C host for the exported function; bounded watchdog', '4/C11',
         'Grammar-shape enumeration, semantic ill-formedness, byte-level abuse through format and compile (all six generators) in-process, through the CLI and through libpacketdsl.so in a sanitized C host. "Never hangs" is decided as bounded progress; watchdog expiry is inconclusive.', 'trusted base: Go runtime panic/fatal reporting, clang ASan/UBSan/LSan, timeout(1)'),
 'C12': ('fault_enumeration', 'fault injection: every single-fault variant (17 classes) at every site of each base protocol through the real CLI; line-span oracle from harness-known layout; strace sample for file-system effects', '4/C12',
         'fault_enumeration, exhaustive per base protocol over fault sites; base protocols sampled. Checks exit status, diagnostic line within the offending declaration, identifier named, no output written; un-faulted bases accepted.', 'trusted base: harness definition of well-formedness and of each fault class; strace'),
 'C13': ('exploration', 'relational monitor: byte equality of repeated compilations in-process (fresh parse) and in fresh CLI processes; map-order canary', '4/C13',
         'Protocols with >= 2 entries in every iterated map, R1 in-process + R2 fresh-process repetitions; a canary proves map-order randomisation is observable in the run.', 'assumes the wall-clock year does not change during the run (C++ header embeds it)'),
 'C14': ('exploration', 'invariant at a hook (deep model snapshot before/after each generator) + all 720 generator orders in-process + all 64 flag subsets through the CLI', '4/C14',
         'Exhaustive in generator orders and flag subsets per protocol; protocols (fixed-string-rich) are sampled.', 'trusted base: verifapi.Snapshot (reflective deep dump with pointer identities)'),
 'C15': ('exploration', 'execution monitor: emitted Lua dissector in a Lua 5.3 host over a mock Wireshark API; tree:add events, tvb reads, final offset via debug.sethook', '4/C15',
         'Runs the dissector on reference bytes and compares (field, offset, length) events, prefix reads and the final offset with the reference layout.', 'trusted base: Wireshark API mock (Proto/ProtoField/Tvb/TvbRange/TreeItem semantics incl. range bounds and UInt64 userdata), reference layout'),
 'C16': ('exploration', 'differential monitor: CLI stdout / file / C string vs in-process library result; written tree vs generator file maps; strace for writes elsewhere; call-history monitor on the C export (ASan host, repeated and interleaved calls in one process)', '4/C16',
         'Every formatter entry point on valid and invalid texts, compile with/without the subcommand word over flag subsets and output-path shapes, byte-for-byte against the library results.', 'trusted base: verifapi (same parse/generate/format steps as the CLI), strace, ASan host'),
 'C17': ('exploration', 'emitted self-tests built and run by each language\'s own runner (go test+testify, rustc --test, javac+JUnit4 stand-in, unittest, clang++ ASan + gtest stand-in)', '4/C17',
         'Builds and runs every emitted self-test of the pool protocols; checks every declared packet has a test.', TB),
}
checks = []
for pid in sorted(C):
    level, tech, ref, text, note = C[pid]
    checks.append({'property_id': pid, 'quick_cmd': './bin/check %s quick' % pid, 'thorough_cmd': './bin/check %s thorough' % pid,
                   'evidence_file': 'evidence/%s.json' % pid, 'replay_cmd_template': './bin/check replay {path}', 'engine': 'vlib',
                   'level_claimed': {'category': level, 'text': text, 'design_ref': 'DESIGN.md §' + ref}, 'level_note': note, 'technique': tech})
m = {'version': 1, 'setup_cmd': './bin/setup',
     'hooks': {'guard': 'verif', 'enable': 'go build -tags verif of the harness module /verif/harness/vapi (replace github.com/xinchentechnote/fin-protoc => /repo) which imports /repo/verifapi',
               'baseline_off_cmd': 'cd /repo && GOFLAGS=-mod=mod GOPROXY=off go test -vet=off -count=1 ./...', 'source_commits': hook, 'add_only': True},
     'engines': [{'name': 'vlib', 'path': 'vlib/', 'serves_properties': sorted(C), 'kind_free_text': 'Python harness: workload generators, reference wire model, per-language lanes running emitted code against stand-in runtimes, monitors/oracles, known-finding triage; Go helper harness/vapi exposes the verif-tagged hooks'}],
     'checks': checks,
     'notes': 'runtime monitoring family; known genuine defects are listed in known_findings.json (open: reported as KNOWN-FINDING lines; fixed: "fix:" commits in /repo). Protocol pools are fixed; VERIF_SEED drives message values, spellings, layouts, comment positions and hostile byte-level inputs.',
     'not_applicable': []}
json.dump(m, open(os.path.join(ROOT, 'MANIFEST.json'), 'w'), indent=1, ensure_ascii=False)
print('written', len(checks), 'checks; hook commits', hook)

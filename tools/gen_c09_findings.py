"""(re)generate the C09 'comment dropped at boundary class' findings from the matrix on the CURRENT tree. Dev-time only."""
import sys, os
sys.path.insert(0, os.path.dirname(os.path.dirname(os.path.abspath(__file__))))
from vlib import check, checks_format, dslprint
import kf

ctx = check.Ctx('C09', 'quick', 1)
ctx.findings_db = []
bad = {}
ok = set()
for p, cls, toks in checks_format.matrix_cases(ctx):
    text, _ = dslprint.layout(toks, 'pretty')
    n0 = sum(v['count'] for v in ctx.violations)
    k0 = len(ctx.violations)
    checks_format.judge_valid(ctx, 'C09', p.tag, p, text, toks, 'm', cls, check_compile=False)
    new = ctx.violations[k0:]
    n1 = sum(v['count'] for v in ctx.violations)
    if n1 == n0:
        ok.add(cls)
    else:
        sym = set()
        for v in ctx.violations:
            if v['key'][2] == cls:
                sym.add(v['key'][1])
        bad.setdefault(cls, {'text': text, 'sym': set()})['sym'] |= sym
ctx._vapi.stop(); ctx.scr.close()
kf.drop('C09-comment-dropped-')
by = {}
for cls, d in bad.items():
    if d['sym'] != {'comment-dropped'}:
        print('NOT a pure comment-dropped class, left unlisted:', cls, d['sym'])
        continue
    by.setdefault(cls.split('|')[0], []).append((cls, d['text']))
for cx, lst in sorted(by.items()):
    lst.sort()
    kf.put({'id': 'C09-comment-dropped-' + cx, 'properties': ['C09'], 'status': 'open', 'lang': ['format'],
            'when': [['cls:' + c] for c, _ in lst], 'symptoms': ['comment-dropped'],
            'probe_input': lst[0][1],
            'what': 'format drops a // comment written at these token boundaries inside a %s context (the formatter re-attaches hidden-channel comments only before the first token / after the last token of a declaration); e.g. class %s' % (cx, lst[0][0])})
print('ok classes', len(ok), 'bad classes', len(bad))

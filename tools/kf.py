"""maintenance helper for known_findings.json (never used at check time)."""
import json
import os

PATH = os.path.join(os.path.dirname(os.path.dirname(os.path.abspath(__file__))), 'known_findings.json')


def load():
    if os.path.exists(PATH):
        return json.load(open(PATH))
    return {'comment': 'open findings are matched by (property, language, feature predicate, symptom class); "fixed" entries suppress nothing', 'findings': [], 'fixed': []}


def save(db):
    db['findings'].sort(key=lambda f: f['id'])
    with open(PATH, 'w') as f:
        json.dump(db, f, indent=1, ensure_ascii=False)
        f.write('\n')


def put(entry):
    db = load()
    db['findings'] = [f for f in db['findings'] if f['id'] != entry['id']] + [entry]
    save(db)


def drop(prefix):
    db = load()
    db['findings'] = [f for f in db['findings'] if not f['id'].startswith(prefix)]
    save(db)


def fixed(prop, commit, what):
    db = load()
    line = 'fixed: property=%s %s %s' % (prop, commit, what)
    if line not in db['fixed']:
        db['fixed'].append(line)
    save(db)

#!/bin/sh
# usage: tools/sweep.sh <tier> <seed>...   — runs every check at each seed, one summary line each into /tmp/sweep/<tier>_<seed>.txt
tier="$1"; shift
cd "$(dirname "$0")/.." || exit 2
mkdir -p /tmp/sweep
for seed in "$@"; do
  out=/tmp/sweep/${tier}_${seed}.txt
  : > "$out"
  for c in C01 C02 C03 C04 C05 C06 C07 C08 C09 C10 C11 C12 C13 C14 C15 C16 C17; do
    VERIF_SEED=$seed VERIF_OUT_DIR=/tmp/sweep/out_${tier}_${seed} ./bin/check $c $tier > /tmp/sweep/${tier}_${seed}_$c.log 2>&1
    echo "$c exit=$? $(tail -1 /tmp/sweep/${tier}_${seed}_$c.log)" >> "$out"
  done
done

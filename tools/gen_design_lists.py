"""refresh the generated lists inside DESIGN.md from known_findings.json"""
import json, os, re
ROOT = os.path.dirname(os.path.dirname(os.path.abspath(__file__)))
db = json.load(open(os.path.join(ROOT, 'known_findings.json')))
p = os.path.join(ROOT, 'DESIGN.md')
s = open(p).read()
lst = ''.join('* ' + l + '\n' for l in db['fixed'])
s = re.sub(r'(<!-- FIXED-LIST-BEGIN[^>]*-->\n).*?(<!-- FIXED-LIST-END -->)', lambda m: m.group(1) + lst + m.group(2), s, flags=re.S)
s = re.sub(r'\d+ `fix:`\ncommits are listed', '%d `fix:`\ncommits are listed' % len(db['fixed']), s)
open(p, 'w').write(s)
print(len(db['fixed']), 'fixed entries written')

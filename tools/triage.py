"""dev-time triage: run every lane over matrix+random protocols and cluster failures with the features that explain them."""
import sys, os, random, collections, re, json
sys.path.insert(0, os.path.dirname(os.path.dirname(os.path.abspath(__file__))))
from vlib import gen, dslprint, tools, spec, refmodel, lanes, wire, pipeline

langs = sys.argv[1].split(',')
nrand = int(sys.argv[2]) if len(sys.argv) > 2 else 60
scr = tools.Scratch()
v = None
try:
    v = tools.Vapi(tools.build_vapi(scr), scr)
    protos = gen.matrix_protos()
    for i in range(nrand):
        protos.append(gen.random_proto(random.Random('t%d' % i), gen.alpha_tag('Tr', i)))
    items, rej = pipeline.make_items(v, protos, langs, 1, gen.SHAPES_QUICK)
    print('items', len(items), 'rejected', len(rej))
    for lang in langs:
        B, outs, metas = pipeline.run_lane(lang, items, scr.dir)
        fails = collections.defaultdict(list)   # symptom -> [item]
        passing = []
        detail = {}
        for it in items:
            out = outs.get(it.tag)
            if out is None:
                continue
            syms = set()
            if out.build != 'ok':
                first = [l for l in out.log.strip().split('\n') if 'error' in l.lower()] or out.log.strip().split('\n')
                msg = re.sub(r'/tmp/\S+/', '', first[0])
                msg = re.sub(r'\d+', '#', msg)
                msg = re.sub(r'\b[A-Z][a-z]+([A-Z][a-z]+)+\b', 'N', msg)
                msg = re.sub(r'\b[a-z]+(_[a-z]+)+\b', 'n', msg)
                msg = re.sub(r'\b[a-z]+([A-Z][a-z]+)+\b', 'n', msg)
                syms.add(out.build + ': ' + msg[:110])
                detail[(lang, out.build + ': ' + msg[:110])] = out.log[:600]
            else:
                f1, _ = wire.check_encode(it, lang, out, list(range(len(it.msgs))))
                f2, _ = wire.check_decode(it, lang, out, metas[it.tag])
                for f in f1 + f2:
                    w = ''
                    if f.cls == 'wrong-bytes':
                        w = re.sub(r'^[^(]*\(', '(', str(f.detail).split('lies in ')[1].split(' @')[0])
                        w = re.sub(r'\d+', '#', w)
                    elif f.cls in ('encode-error', 'decode-error', 'reencode-error'):
                        w = re.sub(r'\d+', '#', str(f.detail))[:70]
                    k = '%s %s %s' % (f.prop, f.cls, w)
                    syms.add(k)
                    detail.setdefault((lang, k), '%s: %s' % (it.tag, str(f.detail)[:300]))
                if out.crash:
                    syms.add('crash ' + str(out.crash[0]))
                    detail.setdefault((lang, 'crash ' + str(out.crash[0])), out.crash[2][-400:])
            if not syms:
                passing.append(it)
            for s in syms:
                fails[s].append(it)
        print('=' * 100)
        print(lang, 'clean', len(passing), 'failing', len(items) - len(passing))
        passfeat = collections.Counter()
        for it in passing:
            passfeat.update(it.feats)
        for s, its in sorted(fails.items(), key=lambda kv: -len(kv[1])):
            common = set.intersection(*[set(it.feats) for it in its])
            # features common to all failing items, ranked by rarity among passing items
            ranked = sorted(common, key=lambda a: passfeat.get(a, 0))
            best = [(a, passfeat.get(a, 0)) for a in ranked[:6] if not a.startswith('opt:Go') and not a.startswith('opt:Java')]
            print('%3d %s' % (len(its), s))
            print('      tags:', sorted(it.tag for it in its)[:8])
            print('      explains:', best)
            print('      e.g.', detail.get((lang, s), '')[:260].replace('\n', ' | '))
finally:
    if v:
        v.stop()
    scr.close()

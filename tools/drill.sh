#!/bin/sh
# usage: tools/drill.sh <worktree-with-uncommitted-mutation> <check id>...   — runs checks against the mutated copy, evidence to /tmp/drill/<name>
wt="$1"; shift
name=$(basename "$wt")
out=/tmp/drill/$name
mkdir -p "$out"
cd "$(dirname "$0")/.." || exit 2
for c in "$@"; do
  VERIF_REPO="$wt" VERIF_OUT_DIR="$out" ./bin/check "$c" quick > "$out/$c.log" 2>&1
  echo "$name $c exit=$? $(grep -c '^VIOLATION' "$out/$c.log") violations; $(tail -1 "$out/$c.log" | cut -c1-160)"
done

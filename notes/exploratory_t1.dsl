options {
    StringPrefixLenType = u8;
    ArrayPrefixLenType = u16;
    LittleEndian = true;
    JavaPackage = "com.x.y";
    GoPackage = "msg";
    GoModule = "example.com/msg";
}
MetaData M {
    u32 Seq `seq`,
    char[4] Code `code`,
}
root packet Root {
    u16 MsgType,
    u32 BodyLen @lengthOf(Body),
    Seq,
    match MsgType as Body {
        1 : A,
        [2,3] : B,
    },
    @calculatedFrom("CRC32")
    u32 Crc,
}
packet A {
    Code,
    @leftPad('0')
    char[6] Name,
    zchar[5] Z,
    string S,
    repeat u16 Nums,
    repeat string Strs,
    repeat B Bs,
    Inner {
        u8 X,
        f64 Y,
    },
}
packet B {
    i64 V,
    B2 Other,
}
packet B2 {
    i8 W,
}
